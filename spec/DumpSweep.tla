---------------------------- MODULE DumpSweep ----------------------------
(* Spec -> code: every input of the model-checked lattice with the event list and result computed by the
   specification's own Step, written as JSON for replay through the real PersLandscapeExact. *)
EXTENDS SweepCore, Json, IOUtils
CONSTANTS MaxT, MaxBars
BarSet == {<<b, d>> \in (0..MaxT) \X (0..MaxT) : b < d /\ b % 2 = 0 /\ d % 2 = 0}
SortedInputs == { s \in UNION {[1..n -> BarSet] : n \in 1..MaxBars} :
                     \A i \in 1..(Len(s) - 1) : Less(s[i], s[i+1]) \/ s[i] = s[i+1] }
Case(s) == LET r == RunAll(InitSt(s), <<>>, TRUE)
           IN [bars |-> s, events |-> r[2], cps |-> Result(r[1]), fired |-> r[1].fired,
               correct |-> CorrectFor(s, Result(r[1]), 0 - 1, MaxT + 1, MaxBars + 1)]
VARIABLE x
Init == x = 0 /\ JsonSerialize(IOEnv.DUMP_FILE, SetToSeq({Case(s) : s \in SortedInputs}))
Next == UNCHANGED x
Spec == Init /\ [][Next]_x
=============================================================================
