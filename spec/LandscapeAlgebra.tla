------------------------------- MODULE LandscapeAlgebra -------------------------------
(* Exact-landscape arithmetic as an environment machine (C09): named landscapes, operations create NEW entries from old
   ones with the algorithm layer (slope merge as coded); each entry also carries the coefficient vector of the linear
   combination of the base landscapes it is meant to be.  Invariant PointwiseInv: every entry equals that combination at every
   tick and every depth (property layer).  Action property OperandsUnchanged: no operation alters an existing entry.     *)
EXTENDS PL
CONSTANTS MaxOps
\* a pool of base landscapes: zero-ended, coincident breakpoints, different depth counts, sign changes after subtraction
Base == << << << <<0, R(0)>>, <<2, R(2)>>, <<4, R(0)>> >>, << <<1, R(0)>>, <<2, R(1)>>, <<3, R(0)>> >> >>,
           << << <<1, R(0)>>, <<3, R(2)>>, <<4, R(1)>>, <<5, R(2)>>, <<7, R(0)>> >> >>,
           << << <<0, R(0)>>, <<1, R(1)>>, <<2, R(0)>> >>, << <<0, R(0)>>, <<1, R(1)>>, <<2, R(0)>> >>, << <<2, R(0)>>, <<3, <<1, 2>>>>, <<4, R(0)>> >> >> >>
NB == Len(Base)
Unit(i) == [j \in 1..NB |-> IF j = i THEN R(1) ELSE RZero]
VARIABLES env, nops
vars == <<env, nops>>
Init == env = [i \in 1..NB |-> [cp |-> Base[i], coef |-> Unit(i)]] /\ nops = 0
Scalars == {R(2), R(-1), <<1, 2>>}
Add(i, j) == env' = Append(env, [cp |-> SumLandscapes(env[i].cp, env[j].cp), coef |-> [q \in 1..NB |-> RAdd(env[i].coef[q], env[j].coef[q])]])
Neg(i) == env' = Append(env, [cp |-> ScaleLandscape(env[i].cp, R(-1)), coef |-> [q \in 1..NB |-> RNeg(env[i].coef[q])]])
\* __sub__ is self + (-other): the negation is a temporary that never enters the environment
Sub(i, j) == env' = Append(env, [cp |-> SumLandscapes(env[i].cp, ScaleLandscape(env[j].cp, R(-1))),
                                 coef |-> [q \in 1..NB |-> RSub(env[i].coef[q], env[j].coef[q])]])
Mul(i, c) == env' = Append(env, [cp |-> ScaleLandscape(env[i].cp, c), coef |-> [q \in 1..NB |-> RMul(c, env[i].coef[q])]])
Next == /\ nops < MaxOps /\ nops' = nops + 1
        /\ \E i, j \in 1..Len(env) : Add(i, j) \/ Sub(i, j) \/ Neg(i) \/ \E c \in Scalars : Mul(i, c)
Spec == Init /\ [][Next]_vars
Ticks == -1..8
RECURSIVE LinComb(_, _, _, _)
LinComb(coef, q, k, t) == IF q > NB THEN RZero ELSE RAdd(RMul(coef[q], Val(Depth(Base[q], k), t)), LinComb(coef, q + 1, k, t))
PointwiseInv == \A e \in 1..Len(env) : \A k \in 1..4 : \A t \in Ticks : REq(Val(Depth(env[e].cp, k), t), LinComb(env[e].coef, 1, k, t))
WellFormed == \A e \in 1..Len(env) : \A k \in 1..Len(env[e].cp) : StrictlyIncreasing(env[e].cp[k]) /\ ZeroEnded(env[e].cp[k])
OperandsUnchanged == [][\A e \in 1..Len(env) : env'[e] = env[e]]_vars
=============================================================================
