---------------------------- MODULE TraceSweep ----------------------------
(* Batch validation of recorded executions of PersLandscapeExact against SweepCore.
   One TLC step per case; one total verdict per case.  Case fields (small ints only):
     dgms     : list of diagrams, each a list of [b, d] in ticks (even); hom_deg selects (0-based)
     hom_deg  : int
     q        : observed critical pairs are in units of 1/q tick
     cps      : observed critical_pairs, per depth a list of [x, y] in 1/q ticks ; lattice = 0 if some value is off the lattice
     events   : hook events as [name, a, b, c] in ticks ; hook = 0 when no hook events were recorded
     hookfired: 0/1 , the hook's own shortcut_fired flag (-1 without hook)
     returned : 1 when the constructor returned a landscape (only read when hom_deg names no diagram)   *)
EXTENDS SweepCore, Json, IOUtils, TLCExt
Cases == JsonDeserialize(IOEnv.TRACE_FILE)
VARIABLE k

Pair(x) == <<x[1], x[2]>>
Bars(c) == LET d == c.dgms[c.hom_deg + 1] IN [i \in 1..Len(d) |-> Pair(d[i])]
Scaled(bs, q) == [i \in 1..Len(bs) |-> <<bs[i][1] * q, bs[i][2] * q>>]
Cps(c) == [kk \in 1..Len(c.cps) |-> [j \in 1..Len(c.cps[kk]) |-> Pair(c.cps[kk][j])]]
Evs(c) == [i \in 1..Len(c.events) |-> <<c.events[i][1], c.events[i][2], c.events[i][3], c.events[i][4]>>]
Lo(bs, cps) == Min({bs[i][1] : i \in 1..Len(bs)} \cup UNION {{cps[kk][j][1] : j \in 1..Len(cps[kk])} : kk \in 1..Len(cps)} ) - 1
Hi(bs, cps) == Max({bs[i][2] : i \in 1..Len(bs)} \cup UNION {{cps[kk][j][1] : j \in 1..Len(cps[kk])} : kk \in 1..Len(cps)} ) + 1
ScaleCps(cps, q) == [kk \in 1..Len(cps) |-> [j \in 1..Len(cps[kk]) |-> <<cps[kk][j][1] * q, cps[kk][j][2] * q>>]]

\* a requested degree for which the caller supplied no diagram (hom_deg >= number of diagrams): there is no "selected diagram", so no
\* landscape may come back -- in particular not the landscape of some OTHER degree's diagram (returned = 1: the constructor returned one)
AbsentVerdict(c) == IF c.returned = 1 THEN <<"fail", "landscape-returned-for-a-degree-without-diagram", FALSE, "nohook", "unknown">>
                    ELSE <<"ok", "", FALSE, "nohook", "ok">>
Verdict(c) ==
  IF c.hom_deg >= Len(c.dgms) THEN AbsentVerdict(c) ELSE
  LET bars  == Bars(c)
      run   == RunAll(InitSt(bars), <<>>, TRUE)
      fired == run[1].fired
      algEv == IF c.hook = 0 THEN "nohook" ELSE IF run[2] = Evs(c) THEN "ok" ELSE "event-mismatch"
  IN IF c.lattice = 0 THEN <<"fail", "offlattice", fired, algEv, "unknown">>
     ELSE LET cps  == Cps(c)
              sb   == Scaled(bars, c.q)
              kmax == (IF Len(cps) > Len(bars) THEN Len(cps) ELSE Len(bars)) + 1
              lo   == Lo(sb, cps)
              hi   == Hi(sb, cps)
              algRes == IF ScaleCps(Result(run[1]), c.q) = cps THEN "ok" ELSE "result-differs"
          IN IF ~OrderedCps(cps) THEN <<"fail", "unordered", fired, algEv, algRes>>
             ELSE IF ~EndsZero(cps) THEN <<"fail", "nonzero-end", fired, algEv, algRes>>
             ELSE IF ~CorrectFor(sb, cps, lo, hi, kmax)
                  THEN <<"fail", <<"not-kth-largest", FirstBad(sb, cps, lo, hi, kmax)>>, fired, algEv, algRes>>
             ELSE IF algEv = "event-mismatch" THEN <<"divergence", "event-mismatch", fired, algEv, algRes>>
             ELSE IF algRes # "ok" THEN <<"divergence", "result-differs", fired, algEv, algRes>>
             ELSE <<"ok", "", fired, algEv, algRes>>

TInit == k = 1
TNext == /\ k <= Len(Cases)
         /\ PrintT(<<"V", k>> \o Verdict(Cases[k]))
         /\ k' = k + 1
AllConsumed == TLCGet("stats").diameter = Len(Cases) + 1
=============================================================================
