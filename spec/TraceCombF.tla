------------------------------- MODULE TraceCombF -------------------------------
(* Landscape arithmetic on ARBITRARY float coordinates (C09, decimal-coordinate family): R = a*P + b*Q for exact landscapes built from
   diagrams with decimal coordinates -- the critical values carry rounding noise, breakpoints of the operands nearly coincide, and the
   sweep itself can return a repeated abscissa.  The lattice validator (TraceAlgebra.tla) decodes exactly and cannot see these inputs.
   case : a, b = <<num, den>> ; P, Q, R = per depth [[x, y]] with x, y the observed floats as 1e-16 fixed-point records (Fix) ;
          finite (0: some coordinate of R is NaN / infinite) ; raised (0/1) ;
          samples = [[depth, x, iP, vP, iQ, vQ, iR, vR]] : at every breakpoint of P, Q, R of that depth and every midpoint between
          consecutive ones, the value of each function there (v*, computed by the harness in exact rational arithmetic) together with
          the CERTIFICATE i* = index of the segment of that object's depth that contains x (0 = x lies outside its support or the depth
          is missing, value 0).  TLC verifies every certificate (membership of x in the segment, collinearity by cross-multiplication --
          no division) and then the pointwise identity vR = a vP + b vQ.                                                              *)
EXTENDS Fix, TLC, Json, IOUtils, TLCExt
Cases == JsonDeserialize(IOEnv.TRACE_FILE)
VARIABLE k
Pts(o, d) == IF d <= Len(o) THEN o[d] ELSE <<>>
\* certificate for one object: segment index i (1-based, between points i and i+1), or 0 = outside the support
CertOK(o, d, x, i, v) ==
  LET p == Pts(o, d) IN
  IF i = 0 THEN /\ NIsZero(v.m)
                /\ (Len(p) = 0 \/ FLeq(x, p[1][1]) \/ FLeq(p[Len(p)][1], x))
  ELSE /\ i >= 1 /\ i < Len(p)
       /\ FLeq(p[i][1], x) /\ FLeq(x, p[i + 1][1])
       \* (v - y0)(x1 - x0) = (y1 - y0)(x - x0)
       /\ FClose(FMul(FSub(v, p[i][2]), FSub(p[i + 1][1], p[i][1])), FMul(FSub(p[i + 1][2], p[i][2]), FSub(x, p[i][1])), E12)
Comb(c, vP, vQ) == FAdd(FDivInt(FMulInt(vP, c.a[1]), c.a[2]), FDivInt(FMulInt(vQ, c.b[1]), c.b[2]))
RECURSIVE FirstBad(_, _)
FirstBad(c, n) ==
  IF n > Len(c.samples) THEN <<"ok", "", 0>>
  ELSE LET s == c.samples[n] IN
       IF ~(CertOK(c.P, s[1], s[2], s[3], s[4]) /\ CertOK(c.Q, s[1], s[2], s[5], s[6]) /\ CertOK(c.R, s[1], s[2], s[7], s[8]))
       THEN <<"machinery", "bad-interpolation-certificate", n>>
       ELSE IF ~FCloseRel(s[8], Comb(c, s[4], s[6]), E12, E9) THEN <<"fail", "linear-combination-not-pointwise", s[1]>>
       ELSE FirstBad(c, n + 1)
Verdict(c) == IF c.raised = 1 THEN <<"fail", "valid-operation-raised", 0>>
              ELSE IF c.finite = 0 THEN <<"fail", "result-not-finite", 0>>
              ELSE FirstBad(c, 1)
TInit == k = 1
TNext == /\ k <= Len(Cases)
         /\ PrintT(<<"V", k>> \o Verdict(Cases[k]))
         /\ k' = k + 1
AllConsumed == TLCGet("stats").diameter = Len(Cases) + 1
=============================================================================
