---- MODULE TestTables ----
EXTENDS Tables, TLC
VARIABLE x
Init == x = 0
Next == UNCHANGED x
====
