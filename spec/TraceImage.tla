------------------------------- MODULE TraceImage -------------------------------
(* Persistence images (C04, C11), decided on recorded transforms.  Coordinates in ticks; pixel values as Fix records.
   case : mine ("C04" | "C11": which property's clauses are evaluated), cfg  = [b0, p0, ps, rx, ry,            pixel (i,j) = [b0+i ps, b0+(i+1) ps] x [p0+j ps, p0+(j+1) ps]   (birth, persistence)
                  kern ("uniform" | "gdiag" | "gcorr"), ka, kb  (uniform: width, height ; gdiag: standard deviations in ticks),
                  wkind ("pers" | "ramp" | "const"), wn (exponent), ramp = [low, high, start, end],
                  marg (1: correlated Gaussian on a grid reaching 8 sd around every point: marginal pixel sums are decided),
                  absdecide (1: kernel mass is decidable here: box overlap, or Phi table with all arguments on the 1/8 lattice)]
          imgs = [[dgm, skew, finite, shape, img]]   dgm = [[b, d]] as handed to transform, skew = 1: (birth, death) input
   C04 : every pixel = sum over points of weight * kernel mass of the pixel's square; image axes (birth, persistence); shape.
   C11 : relations the specification discovers between the recorded images of one configuration: equal multisets of
         birth-persistence points (after dropping zero-weight points) => equal images (order, call style, skew form);
         disjoint union => sum; empty => zeros; non-negative weights => non-negative pixels with total <= total weight.        *)
EXTENDS Tables, FiniteSets, TLC, FiniteSetsExt, SequencesExt, Json, IOUtils, TLCExt
Cases == JsonDeserialize(IOEnv.TRACE_FILE)
VARIABLE k
AbsI(x) == IF x < 0 THEN -x ELSE x
Max2(a, b) == IF a >= b THEN a ELSE b
Min2(a, b) == IF a <= b THEN a ELSE b
PhiExt(t) == IF t < -80 THEN FZero ELSE IF t > 80 THEN FInt(1) ELSE PhiTab(t)
\* birth-persistence points of image q
BP(c, q) == LET d == c.imgs[q][1] IN [i \in 1..Len(d) |-> IF c.imgs[q][2] = 1 THEN <<d[i][1], d[i][2] - d[i][1]>> ELSE <<d[i][1], d[i][2]>>]
RECURSIVE IPow(_, _)
IPow(x, n) == IF n = 0 THEN 1 ELSE x * IPow(x, n - 1)
\* weight of a point (Fix)
Weight(c, pt) ==
  LET g == c.cfg IN
  IF g.wkind = "pers" THEN FInt(IPow(pt[2], g.wn))
  ELSE IF g.wkind = "const" THEN FInt(1)
  ELSE LET lo == g.ramp[1] hi == g.ramp[2] st == g.ramp[3] en == g.ramp[4] IN
       IF pt[2] < st THEN FInt(lo) ELSE IF pt[2] > en THEN FInt(hi)
       ELSE FAdd(FDivInt(FInt((pt[2] - st) * (hi - lo)), en - st), FInt(lo))
IsZeroWeight(c, pt) == FCmp(Weight(c, pt), FZero) = 0
\* kernel mass of the interval [lo, hi] along one axis for a kernel centred at m
Mass1(c, lo, hi, m, axis) ==
  LET g == c.cfg
      par == IF axis = 1 THEN g.ka ELSE g.kb IN
  IF g.kern = "uniform"
  THEN \* box [m - par/2, m + par/2] : overlap length / par, in half ticks to keep the half width integral
       LET ov == Max2(0, Min2(2 * hi, 2 * m + par) - Max2(2 * lo, 2 * m - par)) IN FDivInt(FInt(ov), 2 * par)
  ELSE FSub(PhiExt((8 * (hi - m)) \div par), PhiExt((8 * (lo - m)) \div par))
OnLattice(c, q) == LET g == c.cfg IN g.kern = "uniform" \/
    \A i \in 1..Len(BP(c, q)) : \A e \in 0..g.rx : \A f \in 0..g.ry :
        (8 * (g.b0 + e * g.ps - BP(c, q)[i][1])) % g.ka = 0 /\ (8 * (g.p0 + f * g.ps - BP(c, q)[i][2])) % g.kb = 0
ExpectedPixel(c, q, i, j) ==
  LET g == c.cfg  pts == BP(c, q)
      term(n) == FMul(Weight(c, pts[n]), FMul(Mass1(c, g.b0 + i * g.ps, g.b0 + (i + 1) * g.ps, pts[n][1], 1),
                                                 Mass1(c, g.p0 + j * g.ps, g.p0 + (j + 1) * g.ps, pts[n][2], 2)))
      RECURSIVE Acc(_)
      Acc(n) == IF n > Len(pts) THEN FZero ELSE FAdd(term(n), Acc(n + 1))
  IN Acc(1)
Img(c, q) == c.imgs[q][5]
Px(c, q, i, j) == Img(c, q)[i + 1][j + 1]
Pix(c) == (0..(c.cfg.rx - 1)) \X (0..(c.cfg.ry - 1))
ShapeOK(c, q) == c.imgs[q][4] = <<c.cfg.rx, c.cfg.ry>> /\ Len(Img(c, q)) = c.cfg.rx /\ \A i \in 1..c.cfg.rx : Len(Img(c, q)[i]) = c.cfg.ry
TolI == E12
PxClose(x, y) == FCloseRel(x, y, TolI, E9)
LexLess(p, q) == p[1] < q[1] \/ (p[1] = q[1] /\ p[2] < q[2])
Canon(d) == SortSeq(d, LexLess)
NZ(c, q) == Canon(SelectSeq(BP(c, q), LAMBDA pt : ~IsZeroWeight(c, pt)))
TotalWeight(c, q) == LET pts == BP(c, q) RECURSIVE A(_) A(n) == IF n > Len(pts) THEN FZero ELSE FAdd(Weight(c, pts[n]), A(n + 1)) IN A(1)
SumPixels(c, q) == LET RECURSIVE A(_, _) A(i, j) == IF i >= c.cfg.rx THEN FZero ELSE IF j >= c.cfg.ry THEN A(i + 1, 0) ELSE FAdd(Px(c, q, i, j), A(i, j + 1)) IN A(0, 0)
First3(S) == CHOOSE x \in S : \A y \in S : x[1] < y[1] \/ (x[1] = y[1] /\ (x[2] < y[2] \/ (x[2] = y[2] /\ x[3] <= y[3])))
\* correlated Gaussian on a grid that reaches >= 8 standard deviations around every point: the pixel sums along each axis are the
\* 1-D normal masses of the other axis (the correlation integrates out), and the total is the total weight
E7 == [s |-> 1, m |-> <<0, 0, 10>>]
MargOK(c, q) ==
  LET g == c.cfg  pts == BP(c, q)
      rowsum(i) == LET RECURSIVE A(_) A(j) == IF j >= g.ry THEN FZero ELSE FAdd(Px(c, q, i, j), A(j + 1)) IN A(0)
      colsum(j) == LET RECURSIVE A(_) A(i) == IF i >= g.rx THEN FZero ELSE FAdd(Px(c, q, i, j), A(i + 1)) IN A(0)
      expb(i) == LET RECURSIVE A(_) A(n) == IF n > Len(pts) THEN FZero ELSE FAdd(FMul(Weight(c, pts[n]),
                         FSub(PhiExt((8 * (g.b0 + (i + 1) * g.ps - pts[n][1])) \div g.ka), PhiExt((8 * (g.b0 + i * g.ps - pts[n][1])) \div g.ka))), A(n + 1)) IN A(1)
      expp(j) == LET RECURSIVE A(_) A(n) == IF n > Len(pts) THEN FZero ELSE FAdd(FMul(Weight(c, pts[n]),
                         FSub(PhiExt((8 * (g.p0 + (j + 1) * g.ps - pts[n][2])) \div g.kb), PhiExt((8 * (g.p0 + j * g.ps - pts[n][2])) \div g.kb))), A(n + 1)) IN A(1)
      tol == FAdd(E7, FMul(E7, TotalWeight(c, q)))
  IN /\ \A i \in 0..(g.rx - 1) : FClose(rowsum(i), expb(i), tol)
     /\ \A j \in 0..(g.ry - 1) : FClose(colsum(j), expp(j), tol)
Verdict(c) ==
  LET Q == 1..Len(c.imgs)
      NZs == TLCEval([q \in Q |-> NZ(c, q)])
      badshape == {q \in Q : c.imgs[q][3] = 0 \/ ~ShapeOK(c, q)}
  IN IF badshape # {} THEN <<"fail", "C04-image-shape-or-non-finite-pixel", Min(badshape), 0, 0>>
     ELSE LET abs == IF c.cfg.absdecide = 0 \/ c.mine # "C04" THEN {} ELSE
                     {<<q, p[1], p[2]>> : q \in {q \in Q : OnLattice(c, q)}, p \in Pix(c)} IN
          LET badabs == {x \in abs : ~PxClose(Px(c, x[1], x[2], x[3]), ExpectedPixel(c, x[1], x[2], x[3]))} IN
          IF badabs # {} THEN <<"fail", "C04-pixel-differs-from-weighted-kernel-mass">> \o First3(badabs)
          ELSE IF c.mine = "C04" /\ c.cfg.marg = 1 /\ \E q \in Q : ~MargOK(c, q) THEN <<"fail", "C04-correlated-gaussian-marginal-sums", Min({q \in Q : ~MargOK(c, q)}), 0, 0>>
          ELSE IF c.mine # "C11" THEN <<"ok", "", 0, 0, 0>>
          ELSE LET eqbad == {<<a, b, 0>> : a \in Q, b \in Q} \cap {x \in Q \X Q \X {0} : x[1] < x[2] /\ NZs[x[1]] = NZs[x[2]]
                                  /\ \E p \in Pix(c) : ~PxClose(Px(c, x[1], p[1], p[2]), Px(c, x[2], p[1], p[2]))}
                   sumbad == {x \in Q \X Q \X Q : x[1] # x[2] /\ x[1] # x[3] /\ x[2] < x[3] /\ Len(NZs[x[1]]) > 0 /\ NZs[x[1]] = Canon(NZs[x[2]] \o NZs[x[3]])
                                  /\ \E p \in Pix(c) : ~PxClose(Px(c, x[1], p[1], p[2]), FAdd(Px(c, x[2], p[1], p[2]), Px(c, x[3], p[1], p[2])))}
                   zerobad == {q \in Q : Len(NZs[q]) = 0 /\ \E p \in Pix(c) : FCmp(Px(c, q, p[1], p[2]), FZero) # 0}
                   negbad == {q \in Q : (\A n \in 1..Len(BP(c, q)) : FLeq(FZero, Weight(c, BP(c, q)[n]))) /\
                                        \* (rounding of the inclusion-exclusion of CDF values is proportional to the point weights: 1e-15 of the total weight)
                                        (\/ \E p \in Pix(c) : ~FLeq(FNeg(FMul(E15, FMax(FInt(1), TotalWeight(c, q)))), Px(c, q, p[1], p[2]))
                                         \/ ~FLeqTol(SumPixels(c, q), TotalWeight(c, q), E12, E9))}
               IN IF zerobad # {} THEN <<"fail", "C11-empty-or-zero-weight-diagram-not-all-zero", Min(zerobad), 0, 0>>
                  ELSE IF eqbad # {} THEN <<"fail", "C11-same-points-different-image">> \o First3(eqbad)
                  ELSE IF sumbad # {} THEN <<"fail", "C11-image-of-union-not-sum">> \o First3(sumbad)
                  ELSE IF negbad # {} THEN <<"fail", "C11-negative-pixel-or-total-above-total-weight", Min(negbad), 0, 0>>
                  ELSE <<"ok", "", 0, 0, 0>>
TInit == k = 1
TNext == /\ k <= Len(Cases)
         /\ PrintT(<<"V", k>> \o Verdict(Cases[k]))
         /\ k' = k + 1
AllConsumed == TLCGet("stats").diameter = Len(Cases) + 1
=============================================================================
