---------------------------- MODULE TraceAccumulate ----------------------------
(* Batch validation of recorded PersistenceImager.transform calls against the definitional operators of ImageDef.tla (the same
   operators the model ImageAccumulate.tla is checked against).  The calls are the ones TLC enumerated from the model's initial states
   (spec -> code), each made serially and, for collections, through joblib workers.
   case : mine ("C04" | "C11"), argkind ("one" | "coll"), arg, skew (0/1), njobs, kind ("image" | "list" | "other"),
          imgs = [[[numerator]]] : pixel value * 4*KW*KH (exact: dyadic geometry), lattice (0/1: every value decoded exactly)      *)
EXTENDS ImageDef, TLC, Json, IOUtils, TLCExt
Cases == JsonDeserialize(IOEnv.TRACE_FILE)
VARIABLE k
Tup2(d) == [i \in 1..Len(d) |-> <<d[i][1], d[i][2]>>]
ArgOf(c) == IF c.argkind = "one" THEN Tup2(c.arg) ELSE [n \in 1..Len(c.arg) |-> Tup2(c.arg[n])]
Img(m) == [i \in 1..Len(m) |-> [j \in 1..Len(m[i]) |-> m[i][j]]]
Verdict(c) ==
  LET e == ExpectedOf(c.argkind, ArgOf(c), c.skew = 1) IN
  IF c.lattice = 0 THEN <<"fail", "value-off-lattice", 0>>
  ELSE IF c.kind # e.kind \/ Len(c.imgs) # Len(e.imgs) THEN <<"fail", "C11-result-structure-depends-on-call-style", 0>>
  ELSE IF \E n \in 1..Len(e.imgs) : Len(c.imgs[n]) # RX \/ \E i \in 1..RX : Len(c.imgs[n][i]) # RY THEN <<"fail", c.mine \o "-image-shape-differs-from-resolution", 0>>
  ELSE IF \E n \in 1..Len(e.imgs) : Img(c.imgs[n]) # e.imgs[n]
       THEN <<"fail", IF c.mine = "C04" THEN "C04-pixel-differs-from-weighted-kernel-mass" ELSE "C11-image-differs-from-definition-under-this-call-style",
              CHOOSE n \in 1..Len(e.imgs) : Img(c.imgs[n]) # e.imgs[n]>>
  ELSE <<"ok", "", 0>>
TInit == k = 1
TNext == /\ k <= Len(Cases)
         /\ PrintT(<<"V", k>> \o Verdict(Cases[k]))
         /\ k' = k + 1
AllConsumed == TLCGet("stats").diameter = Len(Cases) + 1
=============================================================================
