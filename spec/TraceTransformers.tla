------------------------------ MODULE TraceTransformers ------------------------------
(* Batch validation of recorded call histories of PersistenceLandscaper / PersistenceImager (C18).
   case : kind ("landscaper" | "imager"), ufix = [ustart, ustop] with 1000000 = not fixed (landscaper; ticks),
          datasets = [[min birth, max death, [element keys in order]]] (1-based ids; for the landscaper of the selected degree),
          events = [[opcode, ds, attrs, outs]] with opcode 1 = fit, 2 = transform, 3 = fit_transform, 4 = set_params on a parameter other than the bounds,
                   attrs = decoded public attributes after the call (ints), outs = [[element key, digest]] of the returned value(s),
                   then a decodable flag, the digest of the exact float attributes (memo key) and a flag "the images of the empty diagrams
                   inserted among the others were all-zero and in place" (1 when none were inserted)
          init = the decoded attributes right after construction
   The memo makes "same fitted state and same diagram => same output, whatever the history or call style" an invariant of the trace. *)
EXTENDS Integers, Sequences, FiniteSets, TLC, FiniteSetsExt, Json, IOUtils, TLCExt
Cases == JsonDeserialize(IOEnv.TRACE_FILE)
VARIABLE k
NOTFIXED == 1000000
Tup(x) == [i \in 1..Len(x) |-> x[i]]
ExpectedLS(c, ds) == <<IF c.ufix[1] = NOTFIXED THEN c.datasets[ds][1] ELSE c.ufix[1],
                       IF c.ufix[2] = NOTFIXED THEN c.datasets[ds][2] ELSE c.ufix[2]>>
\* memoOut: set of <<attrs, element key, digest>> ; memoFit: set of <<ds, attrs>> (imager: learned state per fitted data set)
RECURSIVE Walk(_, _, _, _, _, _)
Walk(c, i, prevAttrs, fitted, memoOut, memoFit) ==
  IF i > Len(c.events) THEN <<"ok", 0, "">>
  ELSE LET e == c.events[i]
           op == e[1]  ds == e[2]  attrs == Tup(e[3])
           outs == [j \in 1..Len(e[4]) |-> <<e[4][j][1], e[4][j][2]>>]
           keys == [j \in 1..Len(outs) |-> outs[j][1]]
           newOut == {<<e[6], outs[j][1], outs[j][2]>> : j \in 1..Len(outs)}   \* keyed by the EXACT fitted state (digest of the float attributes)
           clash == \E x \in newOut : \E y \in (memoOut \cup newOut) : x[1] = y[1] /\ x[2] = y[2] /\ x[3] # y[3]
       IN IF e[5] = 0 THEN <<"fail", i, "attribute-or-output-not-decodable">>
          ELSE IF op = 2 /\ attrs # prevAttrs THEN <<"fail", i, "transform-altered-fitted-state">>
          ELSE IF op = 4 /\ attrs # prevAttrs THEN <<"fail", i, "set_params-on-another-parameter-altered-the-bounds">>
          ELSE IF op \in {1, 3} /\ c.kind = "landscaper" /\ attrs # ExpectedLS(c, ds) THEN <<"fail", i, "fit-depends-on-earlier-fits-or-ignores-user-fixed-parameters">>
          ELSE IF op \in {1, 3} /\ c.kind = "imager" /\ \E m \in memoFit : m[1] = ds /\ m[2] # attrs THEN <<"fail", i, "fit-depends-on-earlier-fits">>
          ELSE IF op \in {2, 3} /\ keys # Tup(c.datasets[ds][3]) THEN <<"fail", i, "collection-not-mapped-element-by-element-in-order">>
          ELSE IF op \in {2, 3} /\ clash THEN <<"fail", i, "same-state-and-diagram-different-output">>
          ELSE IF op = 2 /\ e[7] = 0 THEN <<"fail", i, "collection-not-mapped-element-by-element-in-order">>      \* empty diagrams among the others: zero images, everybody in place
          ELSE Walk(c, i + 1, attrs, fitted \/ op \in {1, 3}, IF op \in {2, 3} THEN memoOut \cup newOut ELSE memoOut,
                    IF op \in {1, 3} THEN memoFit \cup {<<ds, attrs>>} ELSE memoFit)
\* c.init: the attributes right after construction -- a transform BEFORE any fit must leave them alone as well (an estimator whose
\* first transform silently pins its grid makes every later transform depend on the first one)
Verdict(c) == Walk(c, 1, Tup(c.init), FALSE, {}, {})
TInit == k = 1
TNext == /\ k <= Len(Cases)
         /\ PrintT(<<"V", k>> \o Verdict(Cases[k]))
         /\ k' = k + 1
AllConsumed == TLCGet("stats").diameter = Len(Cases) + 1
=============================================================================
