------------------------------ MODULE TraceGrid ------------------------------
(* Batch validation of recorded grid-landscape computations (C08).  Coordinates in ticks.
   Case fields:
     dgms, hom_deg : diagrams [[b, d, fin]] ; the degree-hom_deg diagram is the one used ; fin = 0: infinite death
     a, n, s       : grid nodes a + i*s, i < n  (covers every finite bar of the used diagram)
     lattice       : 0 if some observed value could not be decoded
     values        : PersLandscapeApprox(...).values   (K x n, ticks; [] for the "empty" sentinel)
     hasvec, vvalues : vectorize(PersLandscapeExact(...)) on the same grid (only requested for even-tick finite diagrams)
     hastr, tvalues, flat : PersistenceLandscaper(...).fit_transform output (flattened if flat = 1)
     hasdv, dvec   : death_vector(dgms) (degree 0), infinite deaths encoded as 100000000                         *)
EXTENDS GridCore, Json, IOUtils, TLCExt
SW == INSTANCE SweepCore
Cases == JsonDeserialize(IOEnv.TRACE_FILE)
VARIABLE k
INFTY == 100000000

Used(c) == LET d == c.dgms[c.hom_deg + 1]
               f == SelectSeq(d, LAMBDA p : p[3] = 1)
           IN [i \in 1..Len(f) |-> <<f[i][1] - c.a, f[i][2] - c.a>>]     \* finite bars, relative to the grid start
Rows(v) == [kk \in 1..Len(v) |-> [i \in 1..Len(v[kk]) |-> v[kk][i]]]
Flatten(v) == LET RECURSIVE F(_)
                  F(kk) == IF kk > Len(v) THEN <<>> ELSE v[kk] \o F(kk + 1)
              IN F(1)
\* algorithm layer: the values the as-coded machine produces
AlgVals(bars, n, s) ==
  LET sn == [q \in 1..Len(bars) |-> <<Snap(bars[q][1], n, s), Snap(bars[q][2], n, s)>>]
      col(i) == [q \in 1..Len(bars) |-> Ramp(sn[q][1], sn[q][2], i, s)]
      K == Max({Cardinality({q \in 1..Len(bars) : col(i)[q] > 0}) : i \in 0..(n - 1)})
  IN [kk \in 1..K |-> [i \in 1..n |-> KthOfSeq(col(i - 1), kk)]]
Shapes(v, n) == \A kk \in 1..Len(v) : Len(v[kk]) = n
DeathsOf(d) == [i \in 1..Len(d) |-> IF d[i][3] = 1 THEN d[i][2] ELSE INFTY]
IsSortedDesc(x) == \A i \in 1..(Len(x) - 1) : x[i] >= x[i + 1]
SameBag(x, y) == Len(x) = Len(y) /\ \A v \in {x[i] : i \in 1..Len(x)} \cup {y[i] : i \in 1..Len(y)} :
                    Cardinality({i \in 1..Len(x) : x[i] = v}) = Cardinality({i \in 1..Len(y) : y[i] = v})

Verdict(c) ==
  LET bars == Used(c)
      vals == Rows(c.values)
      alg  == IF c.exactemb = 1 /\ AlgVals(bars, c.n, c.s) # vals THEN "values-differ-from-algorithm-layer" ELSE "ok"
  IN IF c.lattice = 0 THEN <<"fail", "value-off-lattice", alg>>
     ELSE IF ~Shapes(vals, c.n) THEN <<"fail", "wrong-shape", alg>>
     ELSE IF ~HalfStepOK(bars, c.n, c.s, vals) THEN <<"fail", "more-than-half-a-step", alg>>
     ELSE IF OnGrid(bars, c.s) /\ ~ExactOK(bars, c.n, c.s, vals) THEN <<"fail", "not-exact-on-grid", alg>>
     ELSE IF c.hastr = 1 /\ (IF c.flat = 1 THEN c.tvalues # Flatten(vals) ELSE Rows(c.tvalues) # vals)
          THEN <<"fail", "transformer-differs-from-approx-values", alg>>
     ELSE IF c.hasdv = 1 /\ ~(IsSortedDesc(c.dvec) /\ SameBag(c.dvec, DeathsOf(c.dgms[1]))) THEN <<"fail", "death-vector", alg>>
     ELSE IF c.hasvec = 1 /\ ~(Shapes(Rows(c.vvalues), c.n) /\ ExactOK(bars, c.n, c.s, Rows(c.vvalues)))
          THEN (IF SW!RunAll(SW!InitSt(bars), <<>>, TRUE)[1].fired
                THEN <<"excluded", "vectorize-of-C03-known-finding-input", alg>>
                ELSE <<"fail", "vectorize-not-true-landscape", alg>>)
     ELSE IF alg # "ok" THEN <<"divergence", alg, alg>>
     ELSE <<"ok", "", alg>>

TInit == k = 1
TNext == /\ k <= Len(Cases)
         /\ PrintT(<<"V", k>> \o Verdict(Cases[k]))
         /\ k' = k + 1
AllConsumed == TLCGet("stats").diameter = Len(Cases) + 1
=============================================================================
