------------------------------- MODULE HeatDef -------------------------------
(* Definitional operators of the heat kernel on lattice diagrams with sigma = 1/(8 ln 2) (numerators over 2^R), shared by the model
   HeatKernel.tla and the trace validator TraceHeat.tla.                                                                        *)
EXTENDS Integers, Sequences
CONSTANT MaxC
R == 2 * MaxC * MaxC
RECURSIVE Pow2(_)
Pow2(n) == IF n = 0 THEN 1 ELSE 2 * Pow2(n - 1)
Sq(x) == x * x
D2(p, q) == Sq(p[1] - q[1]) + Sq(p[2] - q[2])
Mirror(q) == <<q[2], q[1]>>
Term(p, q) == Pow2(R - D2(p, q)) - Pow2(R - D2(p, Mirror(q)))          \* numerator over 2^R of one summand
\* ---- property layer: the kernel as a sum over ALL pairs (no order), and the squared norm
RECURSIVE KRow(_, _, _)
KRow(p, G, j) == IF j = 0 THEN 0 ELSE KRow(p, G, j - 1) + Term(p, G[j])
RECURSIVE KDef(_, _, _)
KDef(F, G, i) == IF i = 0 THEN 0 ELSE KDef(F, G, i - 1) + KRow(F[i], G, Len(G))
Kern(F, G) == KDef(F, G, Len(F))
SqNorm(F, G) == Kern(F, F) + Kern(G, G) - 2 * Kern(F, G)
=============================================================================
