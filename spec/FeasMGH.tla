------------------------------ MODULE FeasMGH ------------------------------
(* Design lemma: the greedy assignment-feasibility routine decides exactly the existence of an injection
   k -> f(k) with |v_k - u_f(k)| < d, for every pair of value distributions within the constants. *)
EXTENDS MGHCore, Json, IOUtils
CONSTANTS MaxD, MaxCnt
VARIABLES v, u, dd
Init == v \in [1..MaxD -> 0..MaxCnt] /\ u \in [1..MaxD -> 0..MaxCnt] /\ dd \in 1..MaxD
Next == UNCHANGED <<v, u, dd>>
Spec == Init /\ [][Next]_<<v, u, dd>>
\* spec -> code: every triple with the declarative answer, for replay through the real check_assignment_feasibility
DumpInit == /\ JsonSerialize(IOEnv.DUMP_FILE, SetToSeq({[v |-> vv, u |-> uu, d |-> d0, feasible |-> FeasibleDecl(vv, uu, d0, MaxD)] :
                                   vv \in [1..MaxD -> 0..MaxCnt], uu \in [1..MaxD -> 0..MaxCnt], d0 \in 1..MaxD}))
            /\ v = [i \in 1..MaxD |-> 0] /\ u = v /\ dd = 1
GreedyEqDecl == GreedyFeasible(v, u, dd, MaxD) = FeasibleDecl(v, u, dd, MaxD)
DumpNext == UNCHANGED <<v, u, dd>>        \* the dump run only needs the initial states: nothing is explored after them
=============================================================================
