---------------------------- MODULE ImagerParams ----------------------------
(* PersistenceImager parameter validation as a total decision table (growth beyond the listed properties; replayed on the real
   constructor, mismatches are reported as notes of C12, never as violations).  Each argument is abstracted to the kind of value
   passed; the outcome is "ok" or the first complaint in the order the constructor checks them.                              *)
EXTENDS Integers, Sequences, FiniteSets, TLC, Json, IOUtils, SequencesExt
RangeKinds  == {"ok", "list", "len3", "strelem"}
SizeKinds   == {"float", "int", "str"}
FnKinds     == {"callable", "validstr", "badstr", "int"}
ParamKinds  == {"dict", "list"}
RangeOutcome(k, name) == CASE k = "ok" -> "ok" [] k = "list" -> name \o " must be a tuple" [] k = "len3" -> name \o " must be a pair"
                           [] k = "strelem" -> name \o " must be a pair of numbers"
Outcome(a) ==
  IF RangeOutcome(a.birth, "birth_range") # "ok" THEN RangeOutcome(a.birth, "birth_range")
  ELSE IF RangeOutcome(a.pers, "pers_range") # "ok" THEN RangeOutcome(a.pers, "pers_range")
  ELSE IF a.size = "str" THEN "pixel_size must be an int or float"
  ELSE IF a.weight = "badstr" THEN "weight must be callable or a str in"
  ELSE IF a.weight = "int" THEN "weight must be callable or a str"
  ELSE IF a.wparams = "list" THEN "weight_params must be a dict"
  ELSE IF a.kernel = "badstr" THEN "kernel must be callable or a str in"
  ELSE IF a.kernel = "int" THEN "kernel must be callable or a str"
  ELSE IF a.kparams = "list" THEN "kernel_params must be a dict"
  ELSE "ok"
Args == [birth : RangeKinds, pers : RangeKinds, size : SizeKinds, weight : FnKinds, wparams : ParamKinds, kernel : FnKinds, kparams : ParamKinds]
VARIABLE x
Init == x = 0 /\ JsonSerialize(IOEnv.DUMP_FILE, SetToSeq({[args |-> a, outcome |-> Outcome(a)] : a \in Args}))
Next == UNCHANGED x
\* sanity of the table itself: valid arguments are accepted, and every single wrong argument is rejected
AllValidAccepted == \A a \in Args : (a.birth = "ok" /\ a.pers = "ok" /\ a.size # "str" /\ a.weight \in {"callable", "validstr"} /\ a.wparams = "dict"
                                       /\ a.kernel \in {"callable", "validstr"} /\ a.kparams = "dict") <=> Outcome(a) = "ok"
=============================================================================
