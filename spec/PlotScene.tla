------------------------------- MODULE PlotScene -------------------------------
(* Expected matplotlib scenes of persim's plotting functions as functions of their inputs (C20), compared by TLC with the scene
   extracted from the real Axes.  Coordinates: data in ticks; observed coordinates in 1/q ticks (float32-exact lattice values).
   kind "diagrams": dgms = [[[b, d, fin]]], plotonly (0-based indices, [] = all), lifetime, hasrange, range = [x0,x1,y0,y1] (ticks),
        title ("" = none), legend (0/1), labels ;  scene: colls = [[[x, y]]] per scatter collection (in order), lines = [[x0,y0,x1,y1,label]],
        xlim, ylim (1/q ticks, floor/ceil of the float limits: lo rounded down, hi rounded up), xlabel, ylabel, stitle, haslegend, legtexts
   kind "matching": S, T = [[b, d]] finite ; rows = [[i, j]] of the matching (0-based, -1 = diagonal) ; maxrow (0-based index of the arg-max row,
        -1 if none is to be highlighted)
   kind "landscape": content = the landscape object's own function per depth [[x, y]] (1/q ticks), depthsel (0-based, [] = all), obslines = the lines drawn ; onax = [[x0,y0,x1,y1,style]] 2-point lines drawn on the axes that was passed (style = identifier of the (width, dash, colour) class),
        onother = number of lines drawn on any other axes                                                                        *)
EXTENDS Integers, Sequences, FiniteSets, TLC, FiniteSetsExt, SequencesExt, Json, IOUtils, TLCExt
Cases == JsonDeserialize(IOEnv.TRACE_FILE)
VARIABLE k
INFY == 100000000
Sel(c) == IF Len(c.plotonly) = 0 THEN [i \in 1..Len(c.dgms) |-> i] ELSE [i \in 1..Len(c.plotonly) |-> c.plotonly[i] + 1]
Count(s, x) == Cardinality({i \in 1..Len(s) : s[i] = x})
SameBag(a, b) == Len(a) = Len(b) /\ \A i \in 1..Len(a) : Count(a, a[i]) = Count(b, a[i])
\* expected offsets of one diagram in 1/q ticks, with INFY standing for "on the infinity line".  Observed points whose ordinate is
\* not a lattice value are shipped with the same code; the scene also reports ninfvals (distinct single-precision ordinates among them),
\* infinside (that ordinate lies strictly between the y-limits) and inflines (horizontal lines drawn at it).
Expected(c, d) == [i \in 1..Len(d) |-> <<c.q * d[i][1], IF d[i][3] = 0 THEN INFY ELSE IF c.lifetime = 1 THEN c.q * (d[i][2] - d[i][1]) ELSE c.q * d[i][2]>>]
DiagramsVerdict(c) ==
  LET sel == Sel(c)
      hasinf == \E i \in 1..Len(sel) : \E j \in 1..Len(c.dgms[sel[i]]) : c.dgms[sel[i]][j][3] = 0
      finx == UNION {{c.q * c.dgms[sel[i]][j][1] : j \in 1..Len(c.dgms[sel[i]])} : i \in 1..Len(sel)}
      finy == UNION {{Expected(c, c.dgms[sel[i]])[j][2] : j \in {j \in 1..Len(c.dgms[sel[i]]) : c.dgms[sel[i]][j][3] = 1}} : i \in 1..Len(sel)}
  IN IF c.lattice = 0 THEN <<"fail", "coordinates-not-single-precision-lattice-values", 0>>
     ELSE IF Len(c.colls) # Len(sel) THEN <<"fail", "not-one-scatter-collection-per-plotted-diagram", Len(c.colls)>>
     ELSE IF \E i \in 1..Len(sel) : ~SameBag([j \in 1..Len(c.colls[i]) |-> <<c.colls[i][j][1], c.colls[i][j][2]>>], Expected(c, c.dgms[sel[i]]))
          THEN <<"fail", "scatter-coordinates-differ-from-diagram", 0>>
     ELSE IF hasinf /\ c.ninfvals # 1 THEN <<"fail", "infinite-deaths-not-on-one-horizontal-line", c.ninfvals>>
     ELSE IF hasinf /\ c.infinside = 0 THEN <<"fail", "infinity-line-outside-axes", 0>>
     ELSE IF hasinf /\ c.inflines = 0 THEN <<"fail", "no-infinity-line-drawn", 0>>
     ELSE IF c.hasrange = 0 /\ finx # {} /\ ~(c.xlim[1] <= Min(finx) /\ Max(finx) <= c.xlim[2]) THEN <<"fail", "x-limits-do-not-contain-points", 0>>
     ELSE IF c.hasrange = 0 /\ finy # {} /\ ~(c.ylim[1] <= Min(finy) /\ Max(finy) <= c.ylim[2]) THEN <<"fail", "y-limits-do-not-contain-points", 0>>
     \* (what happens to the limits under an explicit xy_range, and the default axis-label texts, are not prescribed by the property)
     ELSE IF c.stitle # c.title THEN <<"fail", "title", 0>>
     ELSE IF c.haslegend # c.legend THEN <<"fail", "legend-presence", 0>>
     \* legend texts are only prescribed when the caller passed labels (the default label text is not part of the property)
     ELSE IF c.legend = 1 /\ Len(c.labels) > 0 /\ \E i \in 1..Len(sel) : ~\E t \in 1..Len(c.legtexts) : c.legtexts[t] = c.labels[sel[i]] THEN <<"fail", "legend-texts", 0>>
     \* the text a diagram's collection carries (default or given) must not depend on plot_only: reflabels are the collection labels of
     \* the same call without plot_only (relational; no particular default text is demanded)
     ELSE IF Len(c.reflabels) = Len(c.dgms) /\ Len(c.colllabels) = Len(sel) /\ \E i \in 1..Len(sel) : c.colllabels[i] # c.reflabels[sel[i]]
          THEN <<"fail", "label-of-a-plotted-diagram-depends-on-plot_only", 0>>
     ELSE <<"ok", "", 0>>
\* matching plots: segments in 1/q ticks with q even, so that the perpendicular foot ((b+d)/2, (b+d)/2) is on the lattice
PadD(X) == IF X = <<>> THEN << <<0, 0>> >> ELSE X      \* an empty diagram is drawn as its placeholder, the diagonal point (0,0), index 0
Seg(c, r) ==
  LET i == r[1] j == r[2] q == c.q  SS == PadD(c.S)  TT == PadD(c.T) IN
  IF i >= 0 /\ j >= 0 THEN <<q * SS[i + 1][1], q * SS[i + 1][2], q * TT[j + 1][1], q * TT[j + 1][2]>>
  ELSE IF j = -1 THEN <<q * SS[i + 1][1], q * SS[i + 1][2], (q \div 2) * (SS[i + 1][1] + SS[i + 1][2]), (q \div 2) * (SS[i + 1][1] + SS[i + 1][2])>>
  ELSE <<q * TT[j + 1][1], q * TT[j + 1][2], (q \div 2) * (TT[j + 1][1] + TT[j + 1][2]), (q \div 2) * (TT[j + 1][1] + TT[j + 1][2])>>
Flip(s) == <<s[3], s[4], s[1], s[2]>>
SegEq(a, b) == a = b \/ a = Flip(b)
MatchingVerdict(c) ==
  LET rows == SelectSeq(c.rows, LAMBDA r : ~(r[1] = -1 /\ r[2] = -1))
      exp == [n \in 1..Len(rows) |-> Seg(c, rows[n])]
      obs == [n \in 1..Len(c.onax) |-> <<c.onax[n][1], c.onax[n][2], c.onax[n][3], c.onax[n][4]>>]
      \* lines of the underlying diagram plot (diagonal, horizon) have both end points on the diagonal or are horizontal: not segments of the matching
      isframe(s) == (s[1] = s[2] /\ s[3] = s[4]) \/ (s[2] = s[4])
      cnt(seq, s) == Cardinality({n \in 1..Len(seq) : SegEq(seq[n], s)})
      degenerate(s) == s[1] = s[3] /\ s[2] = s[4]
  IN IF c.lattice = 0 THEN <<"fail", "coordinates-not-on-lattice", 0>>
     ELSE IF c.onother > 0 THEN <<"fail", "segments-drawn-on-an-axes-that-was-not-passed", c.onother>>
     ELSE IF \E n \in 1..Len(exp) : ~isframe(exp[n]) /\ cnt(obs, exp[n]) < cnt(exp, exp[n]) THEN <<"fail", "matched-pair-without-its-segment", 0>>
     ELSE IF \E n \in 1..Len(obs) : ~isframe(obs[n]) /\ cnt(exp, obs[n]) = 0 THEN <<"fail", "segment-that-joins-no-matched-pair", 0>>
     ELSE IF c.maxrow >= 0 /\ ~isframe(Seg(c, c.rows[c.maxrow + 1])) /\
             ~(\E n \in 1..Len(obs) : SegEq(obs[n], Seg(c, c.rows[c.maxrow + 1]))
               /\ \A m \in 1..Len(obs) : ~SegEq(obs[m], Seg(c, c.rows[c.maxrow + 1])) => c.onax[m][5] # c.onax[n][5])
          THEN <<"fail", "bottleneck-pair-not-marked-distinctly", 0>>
     ELSE <<"ok", "", 0>>
\* 2-D landscape plots: one line per plotted depth, through the landscape's own critical points / sampled values, on the axes passed
LandscapeVerdict(c) ==
  LET sel == IF Len(c.depthsel) = 0 THEN [i \in 1..Len(c.content) |-> i] ELSE [i \in 1..Len(c.depthsel) |-> c.depthsel[i] + 1]
      asPts(l) == [i \in 1..Len(l) |-> <<l[i][1], l[i][2]>>]
  IN IF c.lattice = 0 THEN <<"fail", "coordinates-not-on-lattice", 0>>
     ELSE IF c.onother > 0 THEN <<"fail", "landscape-drawn-on-an-axes-that-was-not-passed", 0>>
     ELSE IF Len(c.obslines) # Len(sel) THEN <<"fail", "not-one-line-per-plotted-depth", Len(c.obslines)>>
     ELSE IF \E i \in 1..Len(sel) : asPts(c.obslines[i]) # asPts(c.content[sel[i]]) THEN <<"fail", "line-differs-from-landscape-function", 0>>
     ELSE IF c.stitle # c.title \/ c.xlabel # c.wantx \/ c.ylabel # c.wanty THEN <<"fail", "title-or-labels", 0>>
     ELSE <<"ok", "", 0>>
Verdict(c) == IF c.kind = "diagrams" THEN DiagramsVerdict(c) ELSE IF c.kind = "matching" THEN MatchingVerdict(c) ELSE LandscapeVerdict(c)
TInit == k = 1
TNext == /\ k <= Len(Cases)
         /\ PrintT(<<"V", k>> \o Verdict(Cases[k]))
         /\ k' = k + 1
AllConsumed == TLCGet("stats").diameter = Len(Cases) + 1
=============================================================================
