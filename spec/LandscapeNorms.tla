------------------------------- MODULE LandscapeNorms -------------------------------
(* Exact segment integrals of |f|^p for piecewise-linear f (C10), in rational arithmetic, and their internal consistency:
   additivity under splitting a segment at any interior tick, agreement of the one-signed and the sign-crossing formula on
   their common boundary, the trapezoid rule for p = 1.  The same formulas, in fixed point, decide recorded norms
   (TraceNorms.tla).                                                                                                    *)
EXTENDS PL
CONSTANTS MaxY, MaxL, MaxP
RDiv(x, y) == RNorm(<<x[1] * y[2], x[2] * y[1]>>)
RECURSIVE RPow(_, _)
RPow(x, k) == IF k = 0 THEN R(1) ELSE RMul(x, RPow(x, k - 1))
RECURSIVE GeoSum(_, _, _, _)
GeoSum(a, b, p, i) == IF i > p THEN RZero ELSE RAdd(RMul(RPow(a, i), RPow(b, p - i)), GeoSum(a, b, p, i + 1))
\* one-signed segment (a, b >= 0 after taking absolute values): L/(p+1) * sum_i a^i b^(p-i)
OneSigned(a, b, L, p) == RDivInt(RMul(R(L), GeoSum(RAbs(a), RAbs(b), p, 0)), p + 1)
\* segment crossing zero: the two triangles, split proportionally: L (|a|^(p+1) + |b|^(p+1)) / ((p+1)(|a|+|b|))
Crossing(a, b, L, p) == RDiv(RMul(R(L), RAdd(RPow(RAbs(a), p + 1), RPow(RAbs(b), p + 1))), RMul(R(p + 1), RAdd(RAbs(a), RAbs(b))))
SegPow(a, b, L, p) == IF RSign(a) * RSign(b) < 0 THEN Crossing(a, b, L, p) ELSE OneSigned(a, b, L, p)

VARIABLES a, b, L, t, p
vars == <<a, b, L, t, p>>
Init == a \in (-MaxY)..MaxY /\ b \in (-MaxY)..MaxY /\ L \in 1..MaxL /\ t \in 1..MaxL /\ p \in 1..MaxP
Next == UNCHANGED vars
Spec == Init /\ [][Next]_vars
Mid == RAdd(R(a), RDivInt(RMul(R(t), R(b - a)), L))     \* value at the split point
Additive == t < L => REq(SegPow(R(a), R(b), L, p), RAdd(SegPow(R(a), Mid, t, p), SegPow(Mid, R(b), L - t, p)))
BranchesAgree == (a # 0 /\ b = 0) => REq(OneSigned(R(a), R(b), L, p), Crossing(R(a), R(b), L, p))
Trapezoid == (p = 1 /\ a * b >= 0) => REq(SegPow(R(a), R(b), L, 1), <<L * ((IF a < 0 THEN -a ELSE a) + (IF b < 0 THEN -b ELSE b)), 2>>)
Symmetric == REq(SegPow(R(a), R(b), L, p), SegPow(R(b), R(a), L, p)) /\ REq(SegPow(R(a), R(b), L, p), SegPow(R(-a), R(-b), L, p))
=============================================================================
