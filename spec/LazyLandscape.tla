---------------------------- MODULE LazyLandscape ----------------------------
(* The laziness protocol of landscape objects (growth of C08 / C09 / C10): PersLandscapeExact / PersLandscapeApprox built with
   compute=False hold only their diagram; every public operation must bring the operands it reads into the computed state first
   (compute_landscape() is idempotent), so that a lazily built landscape is indistinguishable from an eagerly built one -- whatever
   the FIRST query is and whichever operand position it occupies.  Two objects P, Q; operations are abstract names, the harness maps
   them to the real methods / functions.  Unforced = the (operation, position) pairs of a DEFECTIVE implementation that reads an
   operand without computing it (empty for the intended machine; non-empty in the sensitivity run, where AlwaysSeesComputed must fail:
   that is what commit f3b7473 repaired for +, -, *, / and sup_norm of grid landscapes).                                            *)
EXTENDS Integers, Sequences, FiniteSets, TLC, Json, IOUtils, SequencesExt
CONSTANTS Unary,        \* operations reading one landscape:  x -> result
          Binary,       \* operations reading two landscapes: (x, y) -> result
          MaxLen, Unforced, LazyP, LazyQ
Objs == {"P", "Q"}
\* values for the constants (cfg files cannot write tuples): the operations of the two classes, and two defective implementations
UnaryExact == {"getitem", "getslice", "p_norm", "sup_norm", "neg", "mul", "rmul", "div", "vectorize", "plot", "plot3d", "repr"}
BinaryExact == {"add", "sub"}
UnaryApprox == {"getitem", "getslice", "p_norm", "sup_norm", "neg", "mul", "rmul", "div", "pairs", "plot", "plot3d", "repr"}
BinaryApprox == {"add", "sub", "snap", "lc", "avg"}
NoneUnforced == {}
PreRepairUnforced == {<<"add", "self">>, <<"add", "other">>, <<"sub", "self">>, <<"sub", "other">>, <<"neg", "self">>, <<"mul", "self">>, <<"div", "self">>, <<"sup_norm", "self">>}
RightOperandUnforced == {<<"add", "other">>}
VARIABLES computed, hist, sawComputed
vars == <<computed, hist, sawComputed>>
Init == /\ computed = [o \in Objs |-> IF o = "P" THEN ~LazyP ELSE ~LazyQ]
        /\ hist = <<>> /\ sawComputed = TRUE
\* reading operand o in position pos of operation op: forced (computed first) unless the implementation forgets to
Reads(op, pos, o, cmp) == IF <<op, pos>> \in Unforced THEN cmp[o] ELSE TRUE          \* does this read see computed content?
Force(op, pos, o, cmp) == IF <<op, pos>> \in Unforced THEN cmp ELSE [cmp EXCEPT ![o] = TRUE]
DoUnary(op, x) == /\ Len(hist) < MaxLen
                  /\ sawComputed' = (sawComputed /\ Reads(op, "self", x, computed))
                  /\ computed' = Force(op, "self", x, computed)
                  /\ hist' = Append(hist, <<op, x, x>>)
DoBinary(op, x, y) == /\ Len(hist) < MaxLen
                      /\ LET c1 == Force(op, "self", x, computed) IN
                         /\ sawComputed' = (sawComputed /\ Reads(op, "self", x, computed) /\ Reads(op, "other", y, c1))
                         /\ computed' = Force(op, "other", y, c1)
                      /\ hist' = Append(hist, <<op, x, y>>)
Next == (\E op \in Unary, x \in Objs : DoUnary(op, x)) \/ (\E op \in Binary, x \in Objs, y \in Objs : DoBinary(op, x, y))
Spec == Init /\ [][Next]_vars
\* every read sees the computed landscape: a lazily built object behaves as an eagerly built one in every history
AlwaysSeesComputed == sawComputed
\* computing is monotone: nothing ever returns an object to the uncomputed state
ComputedIsStable == [][\A o \in Objs : computed[o] => computed'[o]]_vars
\* spec -> code: every history of at most MaxLen operations over the two objects
RECURSIVE Hists(_)
Steps == {<<op, x, x>> : op \in Unary, x \in Objs} \cup {<<op, x, y>> : op \in Binary, x \in Objs, y \in Objs}
Hists(n) == IF n = 0 THEN {<<>>} ELSE Hists(n - 1) \cup {Append(h, s) : h \in {g \in Hists(n - 1) : Len(g) = n - 1}, s \in Steps}
DumpInit == /\ JsonSerialize(IOEnv.DUMP_FILE, SetToSeq(Hists(MaxLen) \ {<<>>})) /\ Init
DumpNext == UNCHANGED vars        \* the dump run only needs the initial states: nothing is explored after them
=============================================================================
