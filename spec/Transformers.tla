------------------------------ MODULE Transformers ------------------------------
(* scikit-learn style transformers of persim as history machines (C18).
   Landscaper: parameters start/stop are either fixed by the user or learned by fit from the data of THAT fit.
   FitKeepsFirst = TRUE is the landscaper as coded before the repair (fit fills start/stop only while unset, so a
   refit keeps the first grid); FALSE is the intended/repaired behaviour.
   Outputs are modelled as the triple <<start, stop, data>> they are a function of.                                *)
EXTENDS Integers, Sequences, FiniteSets, TLC
CONSTANTS MaxLen, FitKeepsFirst
None == -1
\* data sets: <<min birth, max death>> of the selected degree
Data == {<<0, 4>>, <<2, 10>>, <<1, 6>>, <<14, 20>>}        \* (the last one lies entirely above the others)
Fixed == {None, 3}
VARIABLES ustart, ustop,      \* what the user fixed in the constructor (None = not fixed)
          start, stop,        \* the estimator's public attributes
          lastFit, out, lastOp, n
vars == <<ustart, ustop, start, stop, lastFit, out, lastOp, n>>
Init == /\ ustart \in Fixed /\ ustop \in {None, 12}
        /\ start = ustart /\ stop = ustop /\ lastFit = <<>> /\ out = <<>> /\ lastOp = "init" /\ n = 0
Learn(X) == IF FitKeepsFirst
            THEN /\ start' = (IF start = None THEN X[1] ELSE start)
                 /\ stop'  = (IF stop = None THEN X[2] ELSE stop)
            ELSE /\ start' = (IF ustart = None THEN X[1] ELSE ustart)
                 /\ stop'  = (IF ustop = None THEN X[2] ELSE ustop)
Fit(X) == /\ Learn(X) /\ lastFit' = X /\ out' = <<>> /\ lastOp' = "fit" /\ UNCHANGED <<ustart, ustop>>
Transform(X) == /\ lastFit # <<>> /\ out' = <<start, stop, X>> /\ lastOp' = "transform"
                /\ UNCHANGED <<ustart, ustop, start, stop, lastFit>>
FitTransform(X) == /\ Learn(X) /\ lastFit' = X /\ out' = <<start', stop', X>> /\ lastOp' = "fit_transform"
                   /\ UNCHANGED <<ustart, ustop>>
\* scikit-learn's set_params on a parameter other than start / stop (num_steps, flatten, hom_deg to its current value): the learned and the
\* user-fixed bounds are none of its business -- in particular it must not turn learned bounds into fixed ones
SetOtherParam == /\ lastOp' = "set_params" /\ UNCHANGED <<ustart, ustop, start, stop, lastFit, out>>
Next == n < MaxLen /\ n' = n + 1 /\ (SetOtherParam \/ \E X \in Data : Fit(X) \/ Transform(X) \/ FitTransform(X))
Spec == Init /\ [][Next]_vars
\* what a fit learns depends only on the most recent fit and on the user-fixed parameters
Expected(X) == <<IF ustart = None THEN X[1] ELSE ustart, IF ustop = None THEN X[2] ELSE ustop>>
RefitForgets == lastFit # <<>> => <<start, stop>> = Expected(lastFit)
\* fit_transform(X) returns what transform(X) returns right after fit(X): both are F(Expected(X), X)
FitTransformIsFitThenTransform == lastOp = "fit_transform" => out = <<Expected(lastFit)[1], Expected(lastFit)[2], lastFit>>
TransformUsesLastFit == lastOp = "transform" => (out[1] = Expected(lastFit)[1] /\ out[2] = Expected(lastFit)[2])
SetParamsKeepsState == [][lastOp' = "set_params" => (start' = start /\ stop' = stop /\ ustart' = ustart /\ ustop' = ustop /\ lastFit' = lastFit)]_vars
TransformKeepsState == [][lastOp' = "transform" => (start' = start /\ stop' = stop /\ lastFit' = lastFit)]_vars
=============================================================================
