------------------------------- MODULE Fix -------------------------------
(* Signed fixed-point numbers for a specification language with 32-bit integers.
   A number is [s |-> 1 | -1, m |-> little-endian sequence of base-10^4 limbs]; value = s * (sum m[i]*B^(i-1)) / B^FR,
   i.e. FR = 4 fractional limbs = resolution 1e-16.  Limb products stay < 10^8, column sums < 2^31.        *)
EXTENDS Integers, Sequences
B  == 10000
FR == 4

Limb(n, i) == IF i <= Len(n) THEN n[i] ELSE 0
MaxLen(a, b) == IF Len(a) >= Len(b) THEN Len(a) ELSE Len(b)

RECURSIVE NAddC(_, _, _, _)
NAddC(a, b, i, c) ==
  IF i > Len(a) /\ i > Len(b) THEN (IF c = 0 THEN <<>> ELSE <<c>>)
  ELSE LET s == Limb(a, i) + Limb(b, i) + c IN <<s % B>> \o NAddC(a, b, i + 1, s \div B)
NAdd(a, b) == NAddC(a, b, 1, 0)

RECURSIVE NCmpI(_, _, _)
NCmpI(a, b, i) == IF i = 0 THEN 0
                  ELSE IF Limb(a, i) < Limb(b, i) THEN -1
                  ELSE IF Limb(a, i) > Limb(b, i) THEN 1
                  ELSE NCmpI(a, b, i - 1)
NCmp(a, b) == NCmpI(a, b, MaxLen(a, b))

RECURSIVE NSubC(_, _, _, _)
NSubC(a, b, i, br) ==     \* a - b, requires a >= b
  IF i > Len(a) THEN <<>>
  ELSE LET s == Limb(a, i) - Limb(b, i) - br IN
       IF s < 0 THEN <<s + B>> \o NSubC(a, b, i + 1, 1) ELSE <<s>> \o NSubC(a, b, i + 1, 0)
NSub(a, b) == NSubC(a, b, 1, 0)

RECURSIVE NMul1(_, _, _, _)
NMul1(a, d, i, c) == IF i > Len(a) THEN (IF c = 0 THEN <<>> ELSE <<c>>)
                     ELSE LET p == a[i] * d + c IN <<p % B>> \o NMul1(a, d, i + 1, p \div B)
Shift(a, k) == [i \in 1..k |-> 0] \o a
RECURSIVE NMulI(_, _, _)
NMulI(a, b, j) == IF j > Len(b) THEN <<>> ELSE NAdd(Shift(NMul1(a, b[j], 1, 0), j - 1), NMulI(a, b, j + 1))
NMul(a, b) == NMulI(a, b, 1)
NIsZero(a) == \A i \in 1..Len(a) : a[i] = 0

RECURSIVE NFromInt(_)
NFromInt(n) == IF n = 0 THEN <<>> ELSE <<n % B>> \o NFromInt(n \div B)

\* long division of a natural by a small positive integer n (n < 200000 so that rem * B < 2^31)
RECURSIVE NDivI(_, _, _, _)
NDivI(a, n, i, rem) ==    \* returns the quotient limbs from position i downwards, most significant first
  IF i = 0 THEN <<>>
  ELSE LET cur == rem * B + a[i] IN <<cur \div n>> \o NDivI(a, n, i - 1, cur % n)
Reverse1(q) == [i \in 1..Len(q) |-> q[Len(q) + 1 - i]]
NDiv(a, n) == Reverse1(NDivI(a, n, Len(a), 0))
FZero == [s |-> 1, m |-> <<>>]
FInt(n) == [s |-> IF n < 0 THEN -1 ELSE 1, m |-> Shift(NFromInt(IF n < 0 THEN -n ELSE n), FR)]
\* n / 10^(4k) as a Fix (k <= FR)
FIntShift(n, k) == [s |-> IF n < 0 THEN -1 ELSE 1, m |-> Shift(NFromInt(IF n < 0 THEN -n ELSE n), FR - k)]
FAdd(x, y) == IF x.s = y.s THEN [s |-> x.s, m |-> NAdd(x.m, y.m)]
              ELSE IF NCmp(x.m, y.m) >= 0 THEN [s |-> x.s, m |-> NSub(x.m, y.m)]
              ELSE [s |-> y.s, m |-> NSub(y.m, x.m)]
FNeg(x) == [s |-> -x.s, m |-> x.m]
FSub(x, y) == FAdd(x, FNeg(y))
FAbs(x) == [s |-> 1, m |-> x.m]
FDivInt(x, n) == [s |-> x.s * (IF n < 0 THEN -1 ELSE 1), m |-> NDiv(x.m, IF n < 0 THEN -n ELSE n)]   \* truncated, error < 1e-16
DropLow(a, k) == IF Len(a) <= k THEN <<>> ELSE SubSeq(a, k + 1, Len(a))
FMul(x, y) == [s |-> x.s * y.s, m |-> DropLow(NMul(x.m, y.m), FR)]      \* truncated towards zero, error < 1e-16
RECURSIVE FPow(_, _)
FPow(x, k) == IF k = 0 THEN FInt(1) ELSE FMul(x, FPow(x, k - 1))
FMulInt(x, n) == [s |-> x.s * (IF n < 0 THEN -1 ELSE 1), m |-> NMul(x.m, NFromInt(IF n < 0 THEN -n ELSE n))]
\* sign-aware comparison: -1, 0, 1
FCmp(x, y) == LET xz == NIsZero(x.m) yz == NIsZero(y.m) IN
              IF xz /\ yz THEN 0
              ELSE IF xz THEN (IF y.s > 0 THEN -1 ELSE 1)
              ELSE IF yz THEN (IF x.s > 0 THEN 1 ELSE -1)
              ELSE IF x.s # y.s THEN (IF x.s > 0 THEN 1 ELSE -1)
              ELSE IF x.s > 0 THEN NCmp(x.m, y.m) ELSE NCmp(y.m, x.m)
FLeq(x, y) == FCmp(x, y) <= 0
FLt(x, y) == FCmp(x, y) < 0
FMax(x, y) == IF FLeq(x, y) THEN y ELSE x
FMin(x, y) == IF FLeq(x, y) THEN x ELSE y
\* |x - y| <= tol
FClose(x, y, tol) == NCmp(FSub(x, y).m, tol.m) <= 0
\* |x - y| <= abs + rel * max(|x|, |y|)
FCloseRel(x, y, abs, rel) == FClose(x, y, FAdd(abs, FMul(rel, FMax(FAbs(x), FAbs(y)))))
\* x <= y + abs + rel*max(|x|,|y|)
FLeqTol(x, y, abs, rel) == FLeq(x, FAdd(y, FAdd(abs, FMul(rel, FMax(FAbs(x), FAbs(y))))))
RECURSIVE FSumSeq(_, _)
FSumSeq(xs, i) == IF i > Len(xs) THEN FZero ELSE FAdd(xs[i], FSumSeq(xs, i + 1))
FSum(xs) == FSumSeq(xs, 1)
\* constants
Tol(k) == [s |-> 1, m |-> Shift(<<1>>, FR - k)]     \* 10^(-4k), k in 0..4
E15 == [s |-> 1, m |-> <<10>>]                       \* 1e-15
E12 == [s |-> 1, m |-> <<0, 1>>]                     \* 1e-12
E9  == [s |-> 1, m |-> <<0, 1000>>]                  \* 1e-9
E6  == [s |-> 1, m |-> <<0, 0, 100>>]                \* 1e-6
IsFix(x) == x.s \in {-1, 1} /\ \A i \in 1..Len(x.m) : x.m[i] \in 0..(B - 1)
=============================================================================
