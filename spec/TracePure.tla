------------------------------- MODULE TracePure -------------------------------
(* Batch validation of recorded call sequences against the memo machine of PureAPI.tla (C19).
   case : events = [[fn, argkey, rngkey, result digest, mutated (0/1), raised (0/1)]]
   argkey = digest of the float64 VALUE of the arguments (identical for nested lists / integer arrays / float arrays of equal
   value), rngkey = digest of the NumPy seed the call ran under (0 for deterministic routines).                             *)
EXTENDS Integers, Sequences, FiniteSets, TLC, FiniteSetsExt, Json, IOUtils, TLCExt
Cases == JsonDeserialize(IOEnv.TRACE_FILE)
VARIABLE k
RECURSIVE Walk(_, _, _)
Walk(c, i, memo) ==   \* memo: set of <<fn, argkey, rngkey, digest, raised>>
  IF i > Len(c.events) THEN <<"ok", 0, "">>
  ELSE LET e == c.events[i]
           key == <<e[1], e[2], e[3]>>
           clash == \E m \in memo : m[1] = e[1] /\ m[2] = e[2] /\ m[3] = e[3] /\ (m[4] # e[4] \/ m[5] # e[6])
       IN IF e[5] = 1 THEN <<"fail", i, "argument-modified-by-call">>
          ELSE IF clash THEN <<"fail", i, "same-arguments-different-result">>
          ELSE Walk(c, i + 1, memo \cup {<<e[1], e[2], e[3], e[4], e[6]>>})
Verdict(c) == Walk(c, 1, {})
TInit == k = 1
TNext == /\ k <= Len(Cases)
         /\ PrintT(<<"V", k>> \o Verdict(Cases[k]))
         /\ k' = k + 1
AllConsumed == TLCGet("stats").diameter = Len(Cases) + 1
=============================================================================
