------------------------------ MODULE ImageDef ------------------------------
(* Definitional (property-layer) operators of persistence images for the box kernel and the persistence weight, shared by the model
   ImageAccumulate.tla and the trace validator TraceAccumulate.tla.  RX x RY pixels of side PS ticks with lower corner (0,0); box of
   width KW and height KH ticks centred at the point; coordinates doubled so that the box edges are integral; pixel values are integer
   numerators over the common denominator 4*KW*KH.                                                                                 *)
EXTENDS Integers, Sequences, FiniteSets
CONSTANTS RX, RY, PS, KW, KH
Pix == (0..(RX - 1)) \X (0..(RY - 1))
Max2(a, b) == IF a >= b THEN a ELSE b
Min2(a, b) == IF a <= b THEN a ELSE b
Clamp(x, lo, hi) == IF x < lo THEN lo ELSE IF x > hi THEN hi ELSE x
\* ---- kernel mass of pixel (i,j) for a point at (b,p): numerator over 4*KW*KH; doubled coordinates
Cdf(x, y, mx, my) == Clamp(x - (mx - KW), 0, 2 * KW) * Clamp(y - (my - KH), 0, 2 * KH)
MassCoded(pt, px) ==      \* as coded: inclusion-exclusion of the CDF at the four corners of the pixel
  LET x0 == 2 * PS * px[1]  x1 == 2 * PS * (px[1] + 1)  y0 == 2 * PS * px[2]  y1 == 2 * PS * (px[2] + 1)  mx == 2 * pt[1]  my == 2 * pt[2]
  IN Cdf(x1, y1, mx, my) - Cdf(x0, y1, mx, my) - Cdf(x1, y0, mx, my) + Cdf(x0, y0, mx, my)
Ov(a0, a1, c, r) == Max2(0, Min2(a1, c + r) - Max2(a0, c - r))
MassDef(pt, px) ==        \* definition: overlap area of the pixel with the box
  Ov(2 * PS * px[1], 2 * PS * (px[1] + 1), 2 * pt[1], KW) * Ov(2 * PS * px[2], 2 * PS * (px[2] + 1), 2 * pt[2], KH)
Weight(pt) == pt[2]                  \* persistence^1
\* ---- property layer
Zero == [px \in Pix |-> 0]
RECURSIVE DefSeq(_, _)
DefSeq(pts, n) == IF n = 0 THEN Zero ELSE [px \in Pix |-> DefSeq(pts, n - 1)[px] + Weight(pts[n]) * MassDef(pts[n], px)]
Def(pts) == DefSeq(pts, Len(pts))     \* pts: sequence of birth-persistence points (any order)
BP(d, skew) == [i \in 1..Len(d) |-> IF skew THEN <<d[i][1], d[i][2] - d[i][1]>> ELSE <<d[i][1], d[i][2]>>]
\* the result of transform(arg) for arg a single diagram ("one") or a list of diagrams ("coll"): structure and numerators
ExpectedOf(ak, a, sk) == IF Len(a) = 0 THEN [kind |-> "image", imgs |-> << [i \in 1..RX |-> [j \in 1..RY |-> 0]] >>]
                         ELSE LET ds == IF ak = "one" THEN <<a>> ELSE a
                                  im(d) == LET f == Def(BP(d, sk)) IN [i \in 1..RX |-> [j \in 1..RY |-> f[<<i - 1, j - 1>>]]]
                              IN [kind |-> IF ak = "one" THEN "image" ELSE "list", imgs |-> [n \in 1..Len(ds) |-> im(ds[n])]]
=============================================================================
