--------------------------- MODULE ImageAccumulate ---------------------------
(* PersistenceImager.transform as a state machine (C04, C11): dispatch (empty argument / one diagram / collection, serial or through
   workers), per-diagram private copy and conversion to birth-persistence coordinates, per-point accumulation into a zero image,
   assembly of the result.  One action per step of persim/images.py (transform, _ensure_iterable, _transform).

   Geometry: RX x RY pixels of side PS ticks with lower corner (0,0); box kernel of width KW and height KH ticks centred at the point
   (mass of a pixel = area of overlap / area of box, computed by the corner inclusion-exclusion of ImagePixel.tla, which TLC shows equal
   to the overlap); weight = persistence (so zero-persistence points weigh nothing).  All coordinates are doubled so that the box
   edges are integral; pixel values are integer numerators over the common denominator 4*KW*KH.

   Property layer: Def(bag of birth-persistence points)(pixel) = sum of weight * mass -- a function of the MULTISET of points only.
   Algorithm layer: the loop as coded, points in the order given, diagrams in the order given (serial) or in ANY order (workers).   *)
EXTENDS ImageDef, TLC, Json, IOUtils, SequencesExt, FiniteSetsExt      \* ImageDef: RX, RY, PS, KW, KH and the definitional operators
CONSTANTS MaxC, MaxPts, MaxDgms       \* coordinates 0..MaxC, points per diagram, diagrams per collection
\* ---- inputs
Pt == {<<b, y>> : b \in 0..MaxC, y \in 0..MaxC}
RECURSIVE SeqsUpTo(_, _)
SeqsUpTo(S, n) == IF n = 0 THEN {<<>>} ELSE SeqsUpTo(S, n - 1) \cup {Append(s, x) : s \in {t \in SeqsUpTo(S, n - 1) : Len(t) = n - 1}, x \in S}
Dgms == SeqsUpTo(Pt, MaxPts)
\* argument kinds: "one" (a single diagram), "coll" (a list of diagrams)
VARIABLES argkind, arg, skew, njobs,     \* the call
          pc, queue, singular, pending, cur, pts, wts, nextpt, img, out, result, reskind
vars == <<argkind, arg, skew, njobs, pc, queue, singular, pending, cur, pts, wts, nextpt, img, out, result, reskind>>
call == <<argkind, arg, skew, njobs>>
ValidPts(d, sk) == \A i \in 1..Len(d) : (sk => d[i][2] >= d[i][1])       \* (birth, death) form needs death >= birth
Init == /\ argkind \in {"one", "coll"}
        /\ skew \in BOOLEAN
        /\ njobs \in {0, 2}                    \* 0: n_jobs=None (serial list comprehension); 2: joblib workers
        /\ arg \in (IF argkind = "one" THEN Dgms ELSE SeqsUpTo(Dgms, MaxDgms))
        /\ (IF argkind = "one" THEN ValidPts(arg, skew) ELSE \A i \in 1..Len(arg) : ValidPts(arg[i], skew))
        /\ pc = "dispatch" /\ queue = <<>> /\ singular = FALSE /\ pending = {} /\ cur = 0 /\ pts = <<>> /\ wts = <<>> /\ nextpt = 0
        /\ img = Zero /\ out = <<>> /\ result = <<>> /\ reskind = "none"
\* transform(): `if len(pers_dgms) == 0: return np.zeros(self.resolution)` -- for an empty diagram AND for an empty list
EarlyReturn == /\ pc = "dispatch" /\ Len(arg) = 0
               /\ result' = Zero /\ reskind' = "image" /\ pc' = "done"
               /\ UNCHANGED <<call, queue, singular, pending, cur, pts, wts, nextpt, img, out>>
\* _ensure_iterable(): singular iff pers_dgms[0][0] is not iterable; IndexError (first diagram empty) => not singular
EnsureIterable == /\ pc = "dispatch" /\ Len(arg) > 0
                  /\ singular' = (argkind = "one")
                  /\ queue' = IF argkind = "one" THEN <<arg>> ELSE arg
                  /\ pending' = 1..(IF argkind = "one" THEN 1 ELSE Len(arg))
                  /\ out' = [i \in 1..(IF argkind = "one" THEN 1 ELSE Len(arg)) |-> Zero]
                  /\ pc' = "run"
                  /\ UNCHANGED <<call, cur, pts, wts, nextpt, img, result, reskind>>
\* _transform(): private copy, skew conversion, weights; serial = in order, workers = any pending diagram
StartDiagram(i) == /\ pc = "run" /\ i \in pending /\ (njobs = 0 => i = Min(pending))
                   /\ cur' = i /\ pts' = BP(queue[i], skew) /\ wts' = [n \in 1..Len(queue[i]) |-> Weight(BP(queue[i], skew)[n])]
                   /\ img' = Zero /\ nextpt' = 1 /\ pending' = pending \ {i} /\ pc' = "point"
                   /\ UNCHANGED <<call, queue, singular, out, result, reskind>>
AddPoint == /\ pc = "point" /\ nextpt <= Len(pts)
            /\ img' = [px \in Pix |-> img[px] + wts[nextpt] * MassCoded(pts[nextpt], px)]
            /\ nextpt' = nextpt + 1
            /\ UNCHANGED <<call, pc, queue, singular, pending, cur, pts, wts, out, result, reskind>>
FinishDiagram == /\ pc = "point" /\ nextpt > Len(pts)
                 /\ out' = [out EXCEPT ![cur] = img] /\ pc' = "run" /\ cur' = 0
                 /\ UNCHANGED <<call, queue, singular, pending, pts, wts, nextpt, img, result, reskind>>
Return == /\ pc = "run" /\ pending = {}
          /\ result' = IF singular THEN out[1] ELSE out
          /\ reskind' = IF singular THEN "image" ELSE "list"
          /\ pc' = "done"
          /\ UNCHANGED <<call, queue, singular, pending, cur, pts, wts, nextpt, img, out>>
Next == EarlyReturn \/ EnsureIterable \/ (\E i \in 1..MaxDgms : StartDiagram(i)) \/ AddPoint \/ FinishDiagram \/ Return
Spec == Init /\ [][Next]_vars
FairSpec == Spec /\ WF_vars(Next)
\* ---- properties
TypeOK == pc \in {"dispatch", "run", "point", "done"}
\* C04 at the level of one diagram, while it is being accumulated: the image so far is the definition on the points consumed so far
PartialIsDef == pc = "point" => img = DefSeq(pts, nextpt - 1)
\* C04 / C11: the result is, element by element and in order, the definition on each diagram's MULTISET of points (the definition
\* does not look at the order: OrderFree below), whatever the call style and the worker schedule
ResultIsDef == pc = "done" =>
   IF reskind = "image" THEN result = Def(BP(IF argkind = "one" THEN arg ELSE <<>>, skew))
   ELSE /\ Len(result) = Len(arg) /\ \A i \in 1..Len(arg) : result[i] = Def(BP(arg[i], skew))
\* call-style independence: a diagram passed alone gets the image it gets inside any collection (stated on the definition both are equal to)
\* an empty diagram gives the all-zero image of the configured resolution
EmptyIsZero == pc = "done" => (argkind = "one" /\ Len(arg) = 0 => result = Zero)
                              /\ (reskind = "list" => \A i \in 1..Len(arg) : Len(arg[i]) = 0 => result[i] = Zero)
\* AS CODED: an empty LIST of diagrams is answered with one all-zero image instead of an empty list (documented deviation, see DESIGN)
EmptyCollectionQuirk == (pc = "done" /\ argkind = "coll" /\ Len(arg) = 0) => reskind = "image"
\* a collection of ONE diagram comes back as a list of one image (not as a bare image)
OneElementCollectionStaysAList == (pc = "done" /\ argkind = "coll" /\ Len(arg) = 1) => (reskind = "list" /\ Len(result) = 1)
\* weights are non-negative here: no pixel is negative and the pixel total never exceeds the total weight (times the common denominator)
RECURSIVE SumW(_, _)
SumW(p, n) == IF n = 0 THEN 0 ELSE SumW(p, n - 1) + Weight(p[n])
RECURSIVE SumPix(_, _)
SumPix(f, S) == IF S = {} THEN 0 ELSE LET x == CHOOSE y \in S : TRUE IN f[x] + SumPix(f, S \ {x})
Bounded(im, p) == (\A px \in Pix : im[px] >= 0) /\ SumPix(im, Pix) <= 4 * KW * KH * SumW(p, Len(p))
NonNegativeBounded == pc = "done" =>
   IF reskind = "image" THEN Bounded(result, BP(IF argkind = "one" THEN arg ELSE <<>>, skew))
   ELSE \A i \in 1..Len(arg) : Bounded(result[i], BP(arg[i], skew))
\* the caller's argument is never touched (the conversion works on a private copy)
ArgUntouched == [][call' = call]_vars
Termination == <>(pc = "done")
\* ---- lemmas on the definition (evaluated once per call, in its initial state)
D1 == IF argkind = "one" THEN arg ELSE IF Len(arg) >= 1 THEN arg[1] ELSE <<>>
D2 == IF argkind = "coll" /\ Len(arg) >= 2 THEN arg[2] ELSE <<>>
Additive == pc = "dispatch" => Def(BP(D1, skew) \o BP(D2, skew)) = [px \in Pix |-> Def(BP(D1, skew))[px] + Def(BP(D2, skew))[px]]
OrderFree == pc = "dispatch" => \A i \in 1..(Len(D1) - 1) :       \* adjacent transpositions generate every reordering
               LET sw == [n \in 1..Len(D1) |-> IF n = i THEN D1[i + 1] ELSE IF n = i + 1 THEN D1[i] ELSE D1[n]] IN Def(BP(sw, skew)) = Def(BP(D1, skew))
ZeroWeightNothing == pc = "dispatch" => Def(SelectSeq(BP(D1, skew), LAMBDA p : Weight(p) # 0)) = Def(BP(D1, skew))
SkewFormIrrelevant == (pc = "dispatch" /\ skew) => Def(BP(D1, TRUE)) = Def(BP(BP(D1, TRUE), FALSE))
CodedMassIsDefMass == pc = "dispatch" => \A p \in Pt : \A px \in Pix : MassCoded(p, px) = MassDef(p, px)
\* ---- spec -> code: every call of the initial-state set, with the expected result structure and numerators
DumpOne == {[argkind |-> "one", arg |-> a, skew |-> sk, expected |-> ExpectedOf("one", a, sk)] : sk \in BOOLEAN, a \in Dgms}
DumpColl == {[argkind |-> "coll", arg |-> a, skew |-> sk, expected |-> ExpectedOf("coll", a, sk)] : sk \in BOOLEAN, a \in SeqsUpTo(Dgms, MaxDgms)}
DumpInit == /\ JsonSerialize(IOEnv.DUMP_FILE,
                 SetToSeq({c \in DumpOne : ValidPts(c.arg, c.skew)}) \o SetToSeq({c \in DumpColl : \A i \in 1..Len(c.arg) : ValidPts(c.arg[i], c.skew)}))
            /\ Init
DumpNext == UNCHANGED vars        \* the dump run only needs the initial states: nothing is explored after them
=============================================================================
