------------------------------- MODULE MetricLaws -------------------------------
(* Session machine for distance-like functions between persistence diagrams (C07, C14, C15): a table of OBSERVED values
   between named diagrams; the specification itself decides, by inspecting the diagrams (in ticks), which laws apply and
   checks every applicable law on the whole table.  Values are Fix records in tick units.
   case : fn ("bott" | "wass" | "heat" | "sw"), D = diagrams [[b, d]] (finite points), V = matrix [[finite, value]],
          W = matrix of observed 1-Wasserstein values (or <<>>) for the comparison laws, BT = matrix of observed bottleneck values
          (or <<>>), sigma (Fix, tick^2; heat only), zerotol (Fix; what "zero" means for this function and size),
          anchor: 1 => also decide absolute values by the exact anchor family (heat: sigma = 1/(8 ln 2); sw: Mdirs in Tables!SWMs), Mdirs.
   The first failing law is reported with the indices involved.                                                          *)
EXTENDS Tables, FiniteSets, TLC, FiniteSetsExt, SequencesExt, Json, IOUtils, TLCExt
Cases == JsonDeserialize(IOEnv.TRACE_FILE)
VARIABLE k
AbsI(x) == IF x < 0 THEN -x ELSE x
Pt(p) == <<p[1], p[2]>>
Dg(c, i) == [j \in 1..Len(c.D[i]) |-> Pt(c.D[i][j])]
\* canonical form of a diagram = its points in lexicographic order; multiset equality is equality of canonical forms
LexLess(p, q) == p[1] < q[1] \/ (p[1] = q[1] /\ p[2] < q[2])
Canon(d) == SortSeq(d, LexLess)
OffDiag(d) == SelectSeq(d, LAMBDA p : p[1] # p[2])
ShiftD(d, t) == [j \in 1..Len(d) |-> <<d[j][1] + t, d[j][2] + t>>]
ScaleD(d, f) == [j \in 1..Len(d) |-> <<d[j][1] * f, d[j][2] * f>>]
\* on canonical forms (translation and positive scaling preserve the order)
TransOfC(a, b) == IF Len(a) # Len(b) \/ Len(a) = 0 THEN 999999
                  ELSE LET t == b[1][1] - a[1][1] IN IF ShiftD(a, t) = b THEN t ELSE 999999
ScaleOfC(a, b) == IF Len(a) # Len(b) \/ Len(a) = 0 THEN 0
                  ELSE LET pa == a[Len(a)] pb == b[Len(b)]
                           f == IF pa[2] > 0 /\ pb[2] > 0 /\ pb[2] % pa[2] = 0 THEN pb[2] \div pa[2] ELSE 0
                       IN IF f > 1 /\ ScaleD(a, f) = b THEN f ELSE 0
N(c) == Len(c.D)
Val(c, i, j) == c.V[i][j][2]
Fin(c, i, j) == c.V[i][j][1] = 1
RelTol == E9
Near(x, y) == FCloseRel(x, y, E12, RelTol)
LeqT(x, y) == FLeqTol(x, y, E12, RelTol)
TotalPers(d) == LET S[j \in 0..Len(d)] == IF j = 0 THEN 0 ELSE S[j - 1] + (d[j][2] - d[j][1]) IN S[Len(d)]
MaxPers(d) == Max({0} \cup {d[j][2] - d[j][1] : j \in 1..Len(d)})

(* ---- exact anchors ---- *)
RECURSIVE Pow2Neg(_)
Pow2Neg(n) == IF n <= 0 THEN FInt(1) ELSE IF n > 60 THEN FZero ELSE FDivInt(Pow2Neg(n - 1), 2)
Sq(x) == IF AbsI(x) > 100 THEN 10000 ELSE x * x     \* capped: 2^-10000 = 0 at this resolution, and no 32-bit overflow
\* multi-scale kernel with sigma = 1/(8 ln 2), without its normalisation ln2/pi:  sum 2^-|p-q|^2 - 2^-|p-mirror(q)|^2
K2(F, G) == LET term(i, j) == FSub(Pow2Neg(Sq(F[i][1] - G[j][1]) + Sq(F[i][2] - G[j][2])), Pow2Neg(Sq(F[i][1] - G[j][2]) + Sq(F[i][2] - G[j][1])))
                RECURSIVE Acc(_, _)
                Acc(i, j) == IF i > Len(F) THEN FZero ELSE IF j > Len(G) THEN Acc(i + 1, 1) ELSE FAdd(term(i, j), Acc(i, j + 1))
            IN Acc(1, 1)
HeatAnchorOK(c, i, j) ==    \* heat^2 * pi / ln2 = K2(F,F) + K2(G,G) - 2 K2(F,G)
  LET F == Dg(c, i) G == Dg(c, j)
      rhs == FSub(FAdd(K2(F, F), K2(G, G)), FMulInt(K2(F, G), 2))
      lhs == FMul(FMul(Val(c, i, j), Val(c, i, j)), Pi)
  IN FCloseRel(lhs, FMul(rhs, Ln2), E9, E6)
\* sliced Wasserstein for every tabulated number of directions M (Tables!SWDirs: cos / sin of (1/2 + i/M) pi to 1e-16):
\* average over the directions of the 1-D transport cost (sorted matching, SlicedWasserstein.tla) between the projections of each
\* diagram augmented with the diagonal projections ((b+d)/2, (b+d)/2) of the other
ProjPt(p, dir) == FAdd(FMulInt(dir[1], p[1]), FMulInt(dir[2], p[2]))
ProjDiag(p, dir) == FDivInt(FMulInt(FAdd(dir[1], dir[2]), p[1] + p[2]), 2)
SortFix(s) == SortSeq(s, LAMBDA x, y : FLt(x, y))
L1SortedF(u, v) == LET a == SortFix(u) b == SortFix(v)
                       RECURSIVE A(_)
                       A(q) == IF q > Len(a) THEN FZero ELSE FAdd(FAbs(FSub(a[q], b[q])), A(q + 1))
                   IN A(1)
SWDef(c, i, j) ==
  LET F == Dg(c, i) G == Dg(c, j) dirs == SWDirs(c.Mdirs)
      cost(dir) == L1SortedF([q \in 1..Len(F) |-> ProjPt(F[q], dir)] \o [q \in 1..Len(G) |-> ProjDiag(G[q], dir)],
                             [q \in 1..Len(G) |-> ProjPt(G[q], dir)] \o [q \in 1..Len(F) |-> ProjDiag(F[q], dir)])
      RECURSIVE A(_)
      A(q) == IF q > Len(dirs) THEN FZero ELSE FAdd(cost(dirs[q]), A(q + 1))
  IN FDivInt(A(1), c.Mdirs)
SWAnchorOK(c, i, j) == FCloseRel(Val(c, i, j), SWDef(c, i, j), c.zerotol, E6)    \* float32 direction vectors in the code

(* ---- the law table: returns <<clause, i, j, l>> of the first violated law or <<"ok",0,0,0>> ---- *)
Idx(c) == 1..N(c)
Pairs(c) == Idx(c) \X Idx(c)
FirstOf(S) == CHOOSE x \in S : \A y \in S : x[1] < y[1] \/ (x[1] = y[1] /\ (x[2] < y[2] \/ (x[2] = y[2] /\ x[3] <= y[3])))
Bad1(c, P(_, _), name) == LET S == {<<p[1], p[2], 0>> : p \in {p \in Pairs(c) : ~P(p[1], p[2])}} IN IF S = {} THEN <<"ok", 0, 0, 0>> ELSE <<name>> \o FirstOf(S)
Laws(c) ==
  LET CD   == TLCEval([i \in Idx(c) |-> Canon(Dg(c, i))])
      CO   == TLCEval([i \in Idx(c) |-> Canon(OffDiag(Dg(c, i)))])
      Same == TLCEval([i \in Idx(c) |-> [j \in Idx(c) |-> CD[i] = CD[j]]])
      SameOff == TLCEval([i \in Idx(c) |-> [j \in Idx(c) |-> CO[i] = CO[j]]])
      Tr   == TLCEval([i \in Idx(c) |-> [j \in Idx(c) |-> TransOfC(CD[i], CD[j])]])
      Sc   == TLCEval([i \in Idx(c) |-> [j \in Idx(c) |-> ScaleOfC(CD[i], CD[j])]])
      finite   == Bad1(c, LAMBDA i, j : Fin(c, i, j), "not-finite-or-NaN")
      nonneg   == Bad1(c, LAMBDA i, j : FLeq(FNeg(FAdd(E12, c.zerotol)), Val(c, i, j)), "negative")    \* (zerotol: the session's stated rounding allowance)
      ident    == Bad1(c, LAMBDA i, j : Same[i][j] => FLeq(Val(c, i, j), c.zerotol), "nonzero-between-reorderings")
      symm     == Bad1(c, LAMBDA i, j : FCloseRel(Val(c, i, j), Val(c, j, i), FAdd(E12, c.zerotol), RelTol), "asymmetric")
      tri      == LET S == {<<i, j, l>> \in Idx(c) \X Idx(c) \X Idx(c) : ~LeqT(Val(c, i, l), FAdd(FAdd(Val(c, i, j), Val(c, j, l)), c.zerotol))}
                  IN IF S = {} THEN <<"ok", 0, 0, 0>> ELSE <<"triangle-inequality">> \o FirstOf(S)
      diagpts  == LET S == {<<i, j, l>> \in Idx(c) \X Idx(c) \X Idx(c) : i < j /\ SameOff[i][j]
                                  /\ ~FCloseRel(Val(c, i, l), Val(c, j, l), FAdd(E12, c.zerotol), RelTol)}
                  IN IF S = {} THEN <<"ok", 0, 0, 0>> ELSE <<"diagonal-points-change-the-value">> \o FirstOf(S)
      trans    == LET S == {<<i, j, l>> \in Idx(c) \X Idx(c) \X Idx(c) : i # j /\ Tr[i][j] \notin {0, 999999} /\
                              \E m \in Idx(c) : Tr[l][m] = Tr[i][j] /\ ~FCloseRel(Val(c, i, l), Val(c, j, m), FAdd(E12, c.zerotol), RelTol)}
                  IN IF S = {} THEN <<"ok", 0, 0, 0>> ELSE <<"not-invariant-under-diagonal-translation">> \o FirstOf(S)
      scal     == IF c.fn = "heat" THEN <<"ok", 0, 0, 0>> ELSE
                  LET S == {<<i, j, l>> \in Idx(c) \X Idx(c) \X Idx(c) : i # j /\ Sc[i][j] > 1 /\
                              \E m \in Idx(c) : Sc[l][m] = Sc[i][j] /\ ~FCloseRel(FMulInt(Val(c, i, l), Sc[i][j]), Val(c, j, m), FAdd(E12, FMulInt(c.zerotol, Sc[i][j] + 1)), RelTol)}
                  IN IF S = {} THEN <<"ok", 0, 0, 0>> ELSE <<"not-linear-under-rescaling">> \o FirstOf(S)
      empty    == IF c.fn = "bott" THEN Bad1(c, LAMBDA i, j : Len(CD[j]) = 0 => FCloseRel(FMulInt(Val(c, i, j), 2), FInt(MaxPers(CD[i])), FAdd(E12, FMulInt(c.zerotol, 2)), RelTol), "bottleneck-to-empty-not-half-max-persistence")
                  ELSE IF c.fn = "wass" THEN Bad1(c, LAMBDA i, j : Len(CD[j]) = 0 => FCloseRel(Val(c, i, j), FMulInt(InvSqrt2, TotalPers(CD[i])), FAdd(E12, c.zerotol), RelTol), "wasserstein-to-empty-not-total-persistence-over-sqrt2")
                  ELSE <<"ok", 0, 0, 0>>
      cmp      == IF c.fn = "wass" /\ c.BT # <<>> THEN Bad1(c, LAMBDA i, j : c.BT[i][j][1] = 1 => LeqT(c.BT[i][j][2], Val(c, i, j)), "bottleneck-exceeds-wasserstein")
                  ELSE IF c.fn = "heat" /\ c.W # <<>> THEN Bad1(c, LAMBDA i, j : c.W[i][j][1] = 1 => LeqT(FMul(FMul(FMulInt(Val(c, i, j), 4), c.sigma), SqrtPi), FAdd(c.W[i][j][2], FMul(FMul(FMulInt(c.zerotol, 4), c.sigma), SqrtPi))), "heat-exceeds-wasserstein-over-4-sigma-sqrt-pi")
                  ELSE IF c.fn = "sw" /\ c.W # <<>> THEN Bad1(c, LAMBDA i, j : c.W[i][j][1] = 1 => LeqT(Val(c, i, j), FAdd(FMulInt(c.W[i][j][2], 2), c.zerotol)), "sliced-exceeds-twice-wasserstein")
                  ELSE <<"ok", 0, 0, 0>>
      anchor   == IF c.anchor = 0 THEN <<"ok", 0, 0, 0>>
                  ELSE IF c.fn = "heat" THEN Bad1(c, LAMBDA i, j : HeatAnchorOK(c, i, j), "heat-value-differs-from-kernel-formula")
                  ELSE IF c.fn = "sw" THEN Bad1(c, LAMBDA i, j : SWAnchorOK(c, i, j), "sliced-value-differs-from-1d-transport")
                  ELSE <<"ok", 0, 0, 0>>
      \* SF: the same calls with the bandwidth handed over as a float (V used a Python int): the value must not depend on the number type of sigma
      sigtype  == IF c.SF = <<>> THEN <<"ok", 0, 0, 0>>
                  ELSE Bad1(c, LAMBDA i, j : c.SF[i][j][1] = 1 /\ FCloseRel(Val(c, i, j), c.SF[i][j][2], E12, E9), "value-depends-on-the-number-type-of-sigma")
      all == <<finite, nonneg, ident, symm, empty, anchor, sigtype, cmp, diagpts, trans, scal, tri>>
      bad == {q \in 1..Len(all) : all[q][1] # "ok"}
  IN IF finite[1] # "ok" THEN finite ELSE IF bad = {} THEN <<"ok", 0, 0, 0>> ELSE all[Min(bad)]
Verdict(c) == LET r == Laws(c) IN IF r[1] = "ok" THEN <<"ok", "", 0, 0, 0>> ELSE <<"fail", r[1], r[2], r[3], r[4]>>
TInit == k = 1
TNext == /\ k <= Len(Cases)
         /\ PrintT(<<"V", k>> \o Verdict(Cases[k]))
         /\ k' = k + 1
AllConsumed == TLCGet("stats").diameter = Len(Cases) + 1
=============================================================================
