----------------------------- MODULE PlotMachine -----------------------------
(* persim.plot_diagrams as a state machine (C20): one action per step of persim/visuals.py -- listify, default labels, plot_only
   selection, private float32 copies, axis range (automatic or explicit), lifetime conversion with the y-range reset and the horizon
   line, diagonal, infinity line and substitution of infinite deaths, one scatter per plotted diagram, limits, title, legend.
   Coordinates in ticks; every derived quantity (buffers of 1/10 and 1/5 of the range, the 0.95 position of the infinity line,
   the -0.05 lower limit in lifetime mode) is an integer in units of 1/K tick, K = 200.
   Property layer (what C20 states): one scatter collection per plotted diagram with that diagram's points ((birth, death) or
   (birth, death - birth)), infinite deaths on ONE horizontal line strictly inside the y-limits, limits that contain all finite points
   unless a range was requested, title / legend as requested, and a label that belongs to the diagram it annotates.
   Algorithm layer: the numbers the code arrives at (limits, position of the infinity line), compared by the harness as a divergence.  *)
EXTENDS Integers, Sequences, FiniteSets, TLC, Json, IOUtils, SequencesExt, FiniteSetsExt
CONSTANTS MaxV, MaxPts, MaxDgms,
          Variant      \* "intended" | "labels_after_select" | "inf_before_lifetime" : two defective orders of the steps (sensitivity runs)
K == 200
INF == 1000000                     \* marks an infinite death in the input
\* ---- inputs: a point is <<birth, death>> with death = INF for an essential class
Pt == {<<b, d>> : b \in 0..MaxV, d \in 0..MaxV} \cup {<<b, INF>> : b \in 0..MaxV}
ValidPt(p) == p[2] = INF \/ p[1] <= p[2]
RECURSIVE SeqsBetween(_, _, _)
SeqsBetween(S, lo, hi) == IF hi < lo THEN {} ELSE IF hi = 0 THEN {<<>>}
                          ELSE LET shorter == SeqsBetween(S, 0, hi - 1) IN
                               {s \in shorter : Len(s) >= lo} \cup {Append(s, x) : s \in {t \in shorter : Len(t) = hi - 1}, x \in S}
Dgm == SeqsBetween({p \in Pt : ValidPt(p)}, 1, MaxPts)          \* non-empty diagrams
PlotOnlySets(n) == {<<>>} \cup {<<i>> : i \in 0..(n - 1)} \cup {<<p[1], p[2]>> : p \in {q \in (0..(n - 1)) \X (0..(n - 1)) : q[1] # q[2]}}
XYRange == <<-1, MaxV + 3, -2, MaxV + 4>>          \* the explicit range used when one is requested (x_down, x_up, y_down, y_up)
VARIABLES dgms, plotonly, lifetime, legend, title, givenlabels, hasrange, diagonal,     \* the call (never changes)
          pc, work, labels, xdown, xup, ydown, yup, binf, lines, colls, slimits, stitle, haslegend
call == <<dgms, plotonly, lifetime, legend, title, givenlabels, hasrange, diagonal>>
vars == <<dgms, plotonly, lifetime, legend, title, givenlabels, hasrange, diagonal, pc, work, labels, xdown, xup, ydown, yup, binf, lines, colls, slimits, stitle, haslegend>>
DefaultLabel(i) == <<"H", i>>                      \* "$H_{i}$": whatever the text, it is a function of the diagram's position in the INPUT
GivenLabel(i) == <<"lab", i>>
FiniteVals(ds) == UNION {UNION {{ds[i][j][1]} \cup (IF ds[i][j][2] = INF THEN {} ELSE {ds[i][j][2]}) : j \in 1..Len(ds[i])} : i \in 1..Len(ds)}
Init == /\ dgms \in SeqsBetween(Dgm, 1, MaxDgms)
        /\ plotonly \in PlotOnlySets(Len(dgms))
        /\ lifetime \in BOOLEAN /\ legend \in BOOLEAN /\ title \in {"", "T"} /\ givenlabels \in BOOLEAN /\ hasrange \in BOOLEAN /\ diagonal \in BOOLEAN
        \* (a range needs at least two distinct finite values among the plotted diagrams: otherwise the automatic limits collapse)
        /\ LET sel == IF plotonly = <<>> THEN dgms ELSE [i \in 1..Len(plotonly) |-> dgms[plotonly[i] + 1]] IN hasrange \/ Cardinality(FiniteVals(sel)) >= 2
        /\ pc = "labels" /\ work = <<>> /\ labels = <<>> /\ xdown = 0 /\ xup = 0 /\ ydown = 0 /\ yup = 0 /\ binf = 0
        /\ lines = {} /\ colls = <<>> /\ slimits = <<>> /\ stitle = "" /\ haslegend = FALSE
\* labels are attached to the diagrams BEFORE plot_only selects among them
Labels == /\ pc = "labels"
          /\ labels' = [i \in 1..Len(dgms) |-> IF givenlabels THEN GivenLabel(i - 1) ELSE DefaultLabel(i - 1)]
          /\ work' = dgms /\ pc' = "select"
          /\ UNCHANGED <<call, xdown, xup, ydown, yup, binf, lines, colls, slimits, stitle, haslegend>>
Select == /\ pc = "select"
          /\ work' = (IF plotonly = <<>> THEN work ELSE [i \in 1..Len(plotonly) |-> work[plotonly[i] + 1]])
          /\ labels' = (IF plotonly = <<>> THEN labels
                        ELSE IF Variant = "labels_after_select" THEN [i \in 1..Len(plotonly) |-> IF givenlabels THEN labels[plotonly[i] + 1] ELSE DefaultLabel(i - 1)]
                        ELSE [i \in 1..Len(plotonly) |-> labels[plotonly[i] + 1]])
          /\ pc' = "range"
          /\ UNCHANGED <<call, xdown, xup, ydown, yup, binf, lines, colls, slimits, stitle, haslegend>>
\* (the float32 copies are private: `call` never changes -- ArgUntouched)
AutoLo(w) == LET mn == Min(FiniteVals(w))  mx == Max(FiniteVals(w)) IN K * mn - (K \div 10) * (mx - mn)
AutoHi(w) == LET mn == Min(FiniteVals(w))  mx == Max(FiniteVals(w)) IN K * mx + (K \div 5) * (mx - mn)
AxisRange == /\ pc = "range"
             /\ xdown' = (IF hasrange THEN K * XYRange[1] ELSE AutoLo(work))
             /\ xup' = (IF hasrange THEN K * XYRange[2] ELSE AutoHi(work))
             /\ ydown' = (IF hasrange THEN K * XYRange[3] ELSE AutoLo(work))
             /\ yup' = (IF hasrange THEN K * XYRange[4] ELSE AutoHi(work))
             /\ pc' = "lifetime"
             /\ UNCHANGED <<call, work, labels, binf, lines, colls, slimits, stitle, haslegend>>
Lifetime == /\ pc = "lifetime"
            /\ ydown' = (IF lifetime THEN -((yup - ydown) \div 20) ELSE ydown)
            /\ yup' = (IF lifetime THEN -((yup - ydown) \div 20) + (yup - ydown) ELSE yup)
            /\ work' = (IF lifetime THEN [i \in 1..Len(work) |-> [j \in 1..Len(work[i]) |-> <<work[i][j][1], IF work[i][j][2] = INF THEN INF ELSE work[i][j][2] - work[i][j][1]>>]]
                        ELSE work)
            /\ lines' = (IF lifetime THEN lines \cup {<<"horizon", xdown, 0, xup, 0>>}
                         ELSE IF diagonal THEN lines \cup {<<"diagonal", xdown, xdown, xup, xup>>} ELSE lines)
            /\ binf' = (IF Variant = "inf_before_lifetime" THEN ydown + 19 * ((yup - ydown) \div 20) ELSE binf)    \* (computed from the range BEFORE the reset)
            /\ pc' = "inf"
            /\ UNCHANGED <<call, labels, xdown, xup, colls, slimits, stitle, haslegend>>
HasInf == \E i \in 1..Len(work) : \E j \in 1..Len(work[i]) : work[i][j][2] = INF
BInf == IF Variant = "inf_before_lifetime" THEN binf ELSE ydown + 19 * ((yup - ydown) \div 20)
InfLine == /\ pc = "inf"
           /\ binf' = (IF HasInf THEN BInf ELSE binf)
           /\ lines' = (IF HasInf THEN lines \cup {<<"infinity", xdown, BInf, xup, BInf>>} ELSE lines)
           /\ pc' = "scatter"
           /\ UNCHANGED <<call, work, labels, xdown, xup, ydown, yup, colls, slimits, stitle, haslegend>>
\* one scatter per plotted diagram, in order; coordinates in 1/K ticks, infinite deaths at the infinity line
Scatter == /\ pc = "scatter" /\ Len(colls) < Len(work)
           /\ LET i == Len(colls) + 1 IN
              colls' = Append(colls, [label |-> labels[i], pts |-> [j \in 1..Len(work[i]) |-> <<K * work[i][j][1], IF work[i][j][2] = INF THEN binf ELSE K * work[i][j][2]>>]])
           /\ UNCHANGED <<call, pc, work, labels, xdown, xup, ydown, yup, binf, lines, slimits, stitle, haslegend>>
Finish == /\ pc = "scatter" /\ Len(colls) = Len(work)
          /\ slimits' = <<xdown, xup, ydown, yup>> /\ stitle' = title /\ haslegend' = legend
          /\ pc' = "done"
          /\ UNCHANGED <<call, work, labels, xdown, xup, ydown, yup, binf, lines, colls>>
Next == Labels \/ Select \/ AxisRange \/ Lifetime \/ InfLine \/ Scatter \/ Finish
Spec == Init /\ [][Next]_vars
FairSpec == Spec /\ WF_vars(Next)
\* ---- property layer
Sel == IF plotonly = <<>> THEN [i \in 1..Len(dgms) |-> i] ELSE [i \in 1..Len(plotonly) |-> plotonly[i] + 1]
Count(s, x) == Cardinality({i \in 1..Len(s) : s[i] = x})
SameBag(a, b) == Len(a) = Len(b) /\ \A i \in 1..Len(a) : Count(a, a[i]) = Count(b, a[i])
ExpectedPts(d) == [j \in 1..Len(d) |-> <<K * d[j][1], IF d[j][2] = INF THEN INF ELSE IF lifetime THEN K * (d[j][2] - d[j][1]) ELSE K * d[j][2]>>]
SelHasInf == \E i \in 1..Len(Sel) : \E j \in 1..Len(dgms[Sel[i]]) : dgms[Sel[i]][j][2] = INF
Done == pc = "done"
OneCollectionPerPlottedDiagram == Done => Len(colls) = Len(Sel)
CoordinatesAreTheData == Done => \A i \in 1..Len(Sel) :
    SameBag([j \in 1..Len(colls[i].pts) |-> <<colls[i].pts[j][1], IF SelHasInf /\ colls[i].pts[j][2] = binf /\ dgms[Sel[i]][j][2] = INF THEN INF ELSE colls[i].pts[j][2]>>], ExpectedPts(dgms[Sel[i]]))
InfiniteDeathsOnOneLineInside == (Done /\ SelHasInf) =>
    /\ slimits[3] < binf /\ binf < slimits[4]
    /\ \E l \in lines : l[1] = "infinity" /\ l[3] = binf /\ l[5] = binf /\ l[2] # l[4]
    /\ \A i \in 1..Len(Sel) : \A j \in 1..Len(dgms[Sel[i]]) : dgms[Sel[i]][j][2] = INF => colls[i].pts[j][2] = binf
\* design fact (more than the property asks): the infinity line lies above every finite ordinate when the limits are automatic
InfinityLineAboveFinitePoints == (Done /\ SelHasInf /\ ~hasrange) => \A i \in 1..Len(Sel) : \A j \in 1..Len(colls[i].pts) : dgms[Sel[i]][j][2] # INF => colls[i].pts[j][2] < binf
LimitsContainFinitePoints == (Done /\ ~hasrange) => \A i \in 1..Len(Sel) : \A j \in 1..Len(colls[i].pts) :
    /\ slimits[1] <= colls[i].pts[j][1] /\ colls[i].pts[j][1] <= slimits[2]
    /\ (dgms[Sel[i]][j][2] # INF => slimits[3] <= colls[i].pts[j][2] /\ colls[i].pts[j][2] <= slimits[4])
TitleAndLegendAsRequested == Done => stitle = title /\ haslegend = legend
LabelBelongsToItsDiagram == Done => \A i \in 1..Len(Sel) : colls[i].label = (IF givenlabels THEN GivenLabel(Sel[i] - 1) ELSE DefaultLabel(Sel[i] - 1))
DiagonalOnlyWhenAsked == Done => ((\E l \in lines : l[1] = "diagonal") <=> (diagonal /\ ~lifetime))
ArgUntouched == [][call' = call]_vars
Termination == <>Done
\* ---- spec -> code: used as a CONSTRAINT, prints every finished call with the numbers the machine arrives at (algorithm layer)
PrintDone == ~Done \/ PrintT(<<"CASE", dgms, plotonly, lifetime, legend, title, givenlabels, hasrange, diagonal, slimits, binf>>)
=============================================================================
