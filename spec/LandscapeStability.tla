------------------------------- MODULE LandscapeStability -------------------------------
(* Stability of landscapes (C10, last clause) on the definitional operators: for all pairs of diagrams with at most MaxBars
   bars on an even-tick lattice, sup_k,t |lambda_k(X)(t) - lambda_k(Y)(t)| <= bottleneck(X, Y).  Both sides are definitions
   (k-th largest tent; min over partial pairings of the max cost); nothing of the code is involved.                        *)
EXTENDS Integers, Sequences, FiniteSets, TLC, FiniteSetsExt
CONSTANTS MaxT, MaxBars
Abs(x) == IF x >= 0 THEN x ELSE -x
Tent(bar, t) == LET m == IF t - bar[1] <= bar[2] - t THEN t - bar[1] ELSE bar[2] - t IN IF m > 0 THEN m ELSE 0
Kth(bars, t, k) == LET vals == {Tent(bars[i], t) : i \in 1..Len(bars)} \cup {0}
                       cnt(v) == Cardinality({i \in 1..Len(bars) : Tent(bars[i], t) >= v})
                   IN Max({v \in vals : v = 0 \/ cnt(v) >= k})
CostPP(p, q) == LET x == Abs(p[1] - q[1]) y == Abs(p[2] - q[2]) IN 2 * (IF x >= y THEN x ELSE y)
CostD(p) == p[2] - p[1]
AllInjs(m, n) == {f \in [1..m -> 0..n] : \A i, j \in 1..m : (i # j /\ f[i] # 0) => f[i] # f[j]}
PairingCost(X, Y, f) == Max({0} \cup {IF f[i] = 0 THEN CostD(X[i]) ELSE CostPP(X[i], Y[f[i]]) : i \in 1..Len(X)}
                                \cup {CostD(Y[j]) : j \in {j \in 1..Len(Y) : \A i \in 1..Len(X) : f[i] # j}})
Bott2(X, Y) == Min({PairingCost(X, Y, f) : f \in AllInjs(Len(X), Len(Y))})     \* in HALF ticks
BarSet == {<<b, d>> \in (0..MaxT) \X (0..MaxT) : b < d /\ b % 2 = 0 /\ d % 2 = 0}
Le(x, y) == x[1] < y[1] \/ (x[1] = y[1] /\ x[2] <= y[2])
Dgms == { s \in UNION {[1..n -> BarSet] : n \in 0..MaxBars} : \A i \in 1..(Len(s) - 1) : Le(s[i], s[i + 1]) }
VARIABLES X, Y
Init == X \in Dgms /\ Y \in Dgms
Next == UNCHANGED <<X, Y>>
Spec == Init /\ [][Next]_<<X, Y>>
\* breakpoints of both landscapes are integer ticks (even endpoints), so the sup over real t is attained at an integer tick
Sup == Max({0} \cup {Abs(Kth(X, t, k) - Kth(Y, t, k)) : t \in 0..MaxT, k \in 1..(MaxBars + 1)})
Stability == 2 * Sup <= Bott2(X, Y)
=============================================================================
