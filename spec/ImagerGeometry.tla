------------------------------ MODULE ImagerGeometry ------------------------------
(* PersistenceImager geometry (persim/images.py): constructor, birth_range / pers_range / pixel_size setters, fit.
   All lengths in HALF ticks (symmetric padding halves a tick); requested endpoints and pixel sizes are whole ticks.
   CONTRACT (property layer, C12): after every operation
        rx*ps = W = b1-b0,  ry*ps = H = p1-p0,  pixel size as configured, mesh step = ps on both axes,
        covered range contains what the operation asked for and exceeds it by at most one pixel.
   IMPL (algorithm layer): the arithmetic as coded, in exact integers.  CtorTruncates = TRUE is the constructor before the
   repair (int(W/ps) without padding); FALSE is the repaired constructor (delegates to the pixel-size setter).          *)
EXTENDS Integers, Sequences, FiniteSets, TLC
CONSTANTS MaxE, MaxPs, MaxLen, CtorTruncates
VARIABLES ps, b0, b1, p0, p1, W, H, rx, ry, mb, mp, req, n
\* mb, mp = <<numerator, denominator>> of the mesh step on each axis
vars == <<ps, b0, b1, p0, p1, W, H, rx, ry, mb, mp, req, n>>
CeilDiv(a, b) == (a + b - 1) \div b
Ticks  == {2 * k : k \in 0..MaxE}
PsSet  == {2 * k : k \in 1..MaxPs}
Ranges == {<<x, y>> \in Ticks \X Ticks : x < y}
\* np.linspace(lo, hi + ps, r + 1, endpoint=False): step (hi + ps - lo) / (r + 1)
MeshStep(lo, hi, pz, r) == <<hi + pz - lo, r + 1>>

\* ---- the setters' arithmetic (ceil, symmetric padding), shared by the three setters, fit, and the repaired constructor
Rebuild(pz, nb0, nb1, np0, np1, w, h) ==
  LET db == w - (nb1 - nb0)
      dp == h - (np1 - np0)
      B0 == nb0 - db \div 2  B1 == nb1 + db \div 2
      Q0 == np0 - dp \div 2  Q1 == np1 + dp \div 2 IN
  /\ ps' = pz /\ W' = w /\ H' = h /\ rx' = w \div pz /\ ry' = h \div pz
  /\ b0' = B0 /\ b1' = B1 /\ p0' = Q0 /\ p1' = Q1
  /\ mb' = MeshStep(B0, B1, pz, w \div pz) /\ mp' = MeshStep(Q0, Q1, pz, h \div pz)
Ctor(br, pr, pz) ==
  IF CtorTruncates
  THEN LET w == br[2] - br[1]  h == pr[2] - pr[1] IN
       /\ ps' = pz /\ b0' = br[1] /\ b1' = br[2] /\ p0' = pr[1] /\ p1' = pr[2]
       /\ W' = w /\ H' = h /\ rx' = w \div pz /\ ry' = h \div pz
       /\ mb' = MeshStep(br[1], br[2], pz, w \div pz) /\ mp' = MeshStep(pr[1], pr[2], pz, h \div pz)
  ELSE Rebuild(pz, br[1], br[2], pr[1], pr[2], CeilDiv(br[2] - br[1], pz) * pz, CeilDiv(pr[2] - pr[1], pz) * pz)
SetBirth(v) == Rebuild(ps, v[1], v[2], p0, p1, CeilDiv(v[2] - v[1], ps) * ps, H)
SetPers(v)  == Rebuild(ps, b0, b1, v[1], v[2], W, CeilDiv(v[2] - v[1], ps) * ps)
SetPix(pz)  == Rebuild(pz, b0, b1, p0, p1, CeilDiv(b1 - b0, pz) * pz, CeilDiv(p1 - p0, pz) * pz)
\* fit = bounding box of the data through the two range setters, one after the other
FitBox(bv, pv) ==
  LET w  == CeilDiv(bv[2] - bv[1], ps) * ps
      db == w - (bv[2] - bv[1])
      B0 == bv[1] - db \div 2  B1 == bv[2] + db \div 2
      h  == CeilDiv(pv[2] - pv[1], ps) * ps
      dp == h - (pv[2] - pv[1])
      Q0 == pv[1] - dp \div 2  Q1 == pv[2] + dp \div 2 IN
  /\ ps' = ps /\ W' = w /\ H' = h /\ rx' = w \div ps /\ ry' = h \div ps
  /\ b0' = B0 /\ b1' = B1 /\ p0' = Q0 /\ p1' = Q1
  /\ mb' = MeshStep(B0, B1, ps, w \div ps) /\ mp' = MeshStep(Q0, Q1, ps, h \div ps)

Init == /\ ps = 0 /\ b0 = 0 /\ b1 = 0 /\ p0 = 0 /\ p1 = 0 /\ W = 0 /\ H = 0 /\ rx = 0 /\ ry = 0
        /\ mb = <<0, 1>> /\ mp = <<0, 1>> /\ req = <<"none">> /\ n = 0
Construct == n = 0 /\ \E br \in Ranges, pr \in Ranges, pz \in PsSet : Ctor(br, pr, pz) /\ req' = <<"ctor", br, pr, pz>>
OpBirth == n > 0 /\ \E v \in Ranges : SetBirth(v) /\ req' = <<"birth", v, <<p0, p1>>, ps>>
OpPers  == n > 0 /\ \E v \in Ranges : SetPers(v) /\ req' = <<"pers", <<b0, b1>>, v, ps>>
OpPix   == n > 0 /\ \E pz \in PsSet : SetPix(pz) /\ req' = <<"pix", <<b0, b1>>, <<p0, p1>>, pz>>
OpFit   == n > 0 /\ \E bv \in Ranges, pv \in Ranges : FitBox(bv, pv) /\ req' = <<"fit", bv, pv, ps>>
Next == n < MaxLen /\ n' = n + 1 /\ (Construct \/ OpBirth \/ OpPers \/ OpPix \/ OpFit)
Spec == Init /\ [][Next]_vars

(* ------------------------------ the contract (C12) ------------------------------ *)
\* req = <<op, birth range asked, persistence range asked, pixel size configured>>
SquarePixels == n > 0 => (mb[1] = ps * mb[2] /\ mp[1] = ps * mp[2])
ResTimesPs   == n > 0 => (rx * ps = W /\ ry * ps = H /\ W = b1 - b0 /\ H = p1 - p0)
PixelSizeKept == n > 0 => ps = req[4]
Covers(lo, hi, r) == lo <= r[1] /\ r[2] <= hi /\ (hi - lo) - (r[2] - r[1]) <= ps
Contains     == n > 0 => (Covers(b0, b1, req[2]) /\ Covers(p0, p1, req[3]))
\* half ticks are closed under every operation: all paddings are exact halves
ExactHalves  == n > 0 => ((W - (req[2][2] - req[2][1])) % 2 = 0 \/ req[1] \in {"pers"}) 
=============================================================================
