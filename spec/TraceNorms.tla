------------------------------- MODULE TraceNorms -------------------------------
(* Batch validation of recorded landscape norms (C10).  x in ticks, y in 1/q ticks, real quantities as Fix records (tick units).
   case : kind = "norms": obj = [name, kind, hom, a, s, n, content] (as in TraceAlgebra), q,
                          norms = [[k, two, finite, val]] : for p = k (two = 1) the observed norm^p, for p = k/2 (two = 2) the observed
                                  norm^(2p) = norm^k ; in tick units (the harness divides by the embedding scale exactly),
                          sup = [finite, val]
          kind = "stab" : X, Y bars (even ticks), sup = [finite, val] of the code's sup_norm(PL(X) - PL(Y)), bott = [finite, val] of the
                          code's bottleneck(X, Y)                                                                                 *)
EXTENDS Fix, FiniteSets, TLC, FiniteSetsExt, SequencesExt, Json, IOUtils, TLCExt
SW == INSTANCE SweepCore
Cases == JsonDeserialize(IOEnv.TRACE_FILE)
VARIABLE k
AbsI(x) == IF x < 0 THEN -x ELSE x
\* segments of depth kk of an object: sequence of <<L, Y0, Y1>> (L > 0 only)
PtsOf(o, kk) == IF o[2] = 1 THEN [i \in 1..Len(o[7][kk]) |-> <<o[7][kk][i][1], o[7][kk][i][2]>>]
                ELSE [i \in 1..o[6] |-> <<o[4] + (i - 1) * o[5], o[7][kk][i]>>]
RECURSIVE GeoSumF(_, _, _, _)
GeoSumF(AA, BB, p, i) == IF i > p THEN FZero ELSE FAdd(FMul(FPow(FInt(AA), i), FPow(FInt(BB), p - i)), GeoSumF(AA, BB, p, i + 1))
\* integer p : integral of |f|^p over one segment, times q^p  (AA, BB = |Y0|, |Y1| in 1/q ticks)
SegInt(L, Y0, Y1, p) ==
  LET AA == AbsI(Y0) BB == AbsI(Y1) IN
  IF (Y0 < 0 /\ Y1 > 0) \/ (Y0 > 0 /\ Y1 < 0)
  THEN FDivInt(FDivInt(FMulInt(FAdd(FPow(FInt(AA), p + 1), FPow(FInt(BB), p + 1)), L), p + 1), AA + BB)
  ELSE FDivInt(FMulInt(GeoSumF(AA, BB, p, 0), L), p + 1)
ISqrt(n) == CHOOSE r \in 0..n : r * r = n
IsSquare(n) == \E r \in 0..n : r * r = n
\* p = kh/2 on perfect-square ordinates (q = 1): with AA = sqrt|Y0|, BB = sqrt|Y1| the integrand powers are integers
SegHalf(L, Y0, Y1, kh) ==
  LET AA == ISqrt(AbsI(Y0)) BB == ISqrt(AbsI(Y1)) IN
  IF (Y0 < 0 /\ Y1 > 0) \/ (Y0 > 0 /\ Y1 < 0)
  THEN FDivInt(FDivInt(FMulInt(FAdd(FPow(FInt(AA), kh + 2), FPow(FInt(BB), kh + 2)), 2 * L), kh + 2), AA * AA + BB * BB)
  ELSE IF AA = BB THEN FMulInt(FPow(FInt(AA), kh), L)
  ELSE LET hi == IF AA > BB THEN AA ELSE BB  lo == IF AA > BB THEN BB ELSE AA
       IN FDivInt(FDivInt(FMulInt(FSub(FPow(FInt(hi), kh + 2), FPow(FInt(lo), kh + 2)), 2 * L), kh + 2), hi * hi - lo * lo)
RECURSIVE SumSegs(_, _, _, _)
SumSegs(pts, i, kk, two) ==
  IF i >= Len(pts) THEN FZero
  ELSE LET L == pts[i + 1][1] - pts[i][1]
           t == IF L <= 0 THEN FZero ELSE IF two = 1 THEN SegInt(L, pts[i][2], pts[i + 1][2], kk) ELSE SegHalf(L, pts[i][2], pts[i + 1][2], kk)
       IN FAdd(t, SumSegs(pts, i + 1, kk, two))
RECURSIVE SumDepths(_, _, _, _)
SumDepths(o, d, kk, two) == IF d > Len(o[7]) THEN FZero ELSE FAdd(SumSegs(PtsOf(o, d), 1, kk, two), SumDepths(o, d + 1, kk, two))
RECURSIVE DivQ(_, _, _)
DivQ(x, q, times) == IF times = 0 THEN x ELSE DivQ(FDivInt(x, q), q, times - 1)
NormPow(o, q, p) == DivQ(SumDepths(o, 1, p, 1), q, p)
AllSquares(o) == \A d \in 1..Len(o[7]) : \A i \in 1..Len(PtsOf(o, d)) : IsSquare(AbsI(PtsOf(o, d)[i][2]))
SupOf(o, q) == FDivInt(FInt(Max({0} \cup UNION {{AbsI(PtsOf(o, d)[i][2]) : i \in 1..Len(PtsOf(o, d))} : d \in 1..Len(o[7])})), q)
Close(x, y) == FCloseRel(x, y, E12, E9)

NormClause(c, i) ==
  LET e == c.norms[i] IN
  IF e[3] = 0 THEN "norm-not-finite"
  ELSE IF e[2] = 1 THEN (IF Close(e[4], NormPow(c.obj, c.q, e[1])) THEN "ok" ELSE "p-norm-differs-from-integral")
  ELSE IF c.q # 1 \/ ~AllSquares(c.obj) THEN "ok"      \* half-integer p is only decided on perfect-square ordinates
  ELSE LET T == SumDepths(c.obj, 1, e[1], 2) IN IF Close(e[4], FMul(T, T)) THEN "ok" ELSE "real-p-norm-differs-from-integral"
RECURSIVE FirstBad(_, _)
FirstBad(c, i) == IF i > Len(c.norms) THEN <<"ok", 0>> ELSE LET cl == NormClause(c, i) IN IF cl = "ok" THEN FirstBad(c, i + 1) ELSE <<cl, i>>
Bars(L) == [i \in 1..Len(L) |-> <<L[i][1], L[i][2]>>]
\* kind = "fnorms": landscapes with ARBITRARY float coordinates (decimal inputs, rounding noise in the critical values: nearly flat segments).
\* pts = per depth [[x, y, mark]] with x, y the observed floats as Fix records (1e-16); the harness has inserted the zero crossing of every
\* sign-changing segment (mark = 1, y = 0), which is verified here by collinearity, so that every piece is one-signed and its integral of
\* |f|^p is L * (a^p + a^(p-1) b + ... + b^p) / (p + 1) -- no division by a difference.  norms = [[p, finite, observed norm^p]], sup.
RECURSIVE GeoFix(_, _, _, _)
GeoFix(a, b, p, i) == IF i > p THEN FZero ELSE FAdd(FMul(FPow(a, i), FPow(b, p - i)), GeoFix(a, b, p, i + 1))
PieceInt(x0, y0, x1, y1, p) == FDivInt(FMul(FSub(x1, x0), GeoFix(FAbs(y0), FAbs(y1), p, 0)), p + 1)
RECURSIVE SumPieces(_, _, _)
SumPieces(pts, i, p) == IF i >= Len(pts) THEN FZero ELSE FAdd(PieceInt(pts[i][1], pts[i][2], pts[i + 1][1], pts[i + 1][2], p), SumPieces(pts, i + 1, p))
RECURSIVE SumDepthsF(_, _, _)
SumDepthsF(c, d, p) == IF d > Len(c.pts) THEN FZero ELSE FAdd(SumPieces(c.pts[d], 1, p), SumDepthsF(c, d + 1, p))
\* an inserted crossing (x, 0) between (x0, y0) and (x1, y1): y0 (x1 - x) + y1 (x - x0) = 0 up to the 1e-16 grain of the records
CrossingOK(c) == \A d \in 1..Len(c.pts) : \A i \in 2..(Len(c.pts[d]) - 1) : c.pts[d][i][3] = 1 =>
    /\ NIsZero(c.pts[d][i][2].m)
    /\ FClose(FAdd(FMul(c.pts[d][i - 1][2], FSub(c.pts[d][i + 1][1], c.pts[d][i][1])), FMul(c.pts[d][i + 1][2], FSub(c.pts[d][i][1], c.pts[d][i - 1][1]))), FZero, E12)
OneSigned(c) == \A d \in 1..Len(c.pts) : \A i \in 1..(Len(c.pts[d]) - 1) :
    ~((c.pts[d][i][2].s < 0 /\ ~NIsZero(c.pts[d][i][2].m) /\ c.pts[d][i + 1][2].s > 0 /\ ~NIsZero(c.pts[d][i + 1][2].m))
      \/ (c.pts[d][i][2].s > 0 /\ ~NIsZero(c.pts[d][i][2].m) /\ c.pts[d][i + 1][2].s < 0 /\ ~NIsZero(c.pts[d][i + 1][2].m)))
FNormClause(c, i) ==
  LET e == c.norms[i] IN
  IF e[2] = 0 THEN "norm-not-finite"
  ELSE IF FCloseRel(e[3], SumDepthsF(c, 1, e[1]), E12, E9) THEN "ok" ELSE "p-norm-differs-from-integral"
RECURSIVE FirstBadF(_, _)
FirstBadF(c, i) == IF i > Len(c.norms) THEN <<"ok", 0>> ELSE LET cl == FNormClause(c, i) IN IF cl = "ok" THEN FirstBadF(c, i + 1) ELSE <<cl, c.norms[i][1]>>
\* kind = "laws": the consequences the property names, on ONE session over two shared landscape objects P, Q (both norms of P and Q are
\* validated against their integrals by two ordinary "norms" cases, taken before and after the session).  c = <<num, den>> the scalar,
\* rows = [[p (0 = sup norm), finite, nP, nQ, n(P-Q), n(Q-P), n(P-P), n(c*P), n(P+Q)]] as Fix records, all divided by max(nP, nQ) (the
\* laws are homogeneous of degree one, so the common factor is immaterial).
LawClause(c, i) ==
  LET e == c.rows[i]  cn == AbsI(c.c[1])  cd == c.c[2] IN
  IF e[2] = 0 THEN "norm-not-finite"
  ELSE IF ~FLeq(e[7], E9) THEN "nonzero-for-P-minus-P"
  ELSE IF ~Close(e[5], e[6]) THEN "not-absolutely-homogeneous"
  ELSE IF ~Close(FMulInt(e[8], cd), FMulInt(e[3], cn)) THEN "not-absolutely-homogeneous"
  ELSE IF ~FLeqTol(e[5], FAdd(e[3], e[4]), E12, E9) \/ ~FLeqTol(e[9], FAdd(e[3], e[4]), E12, E9) THEN "triangle-inequality"
  \* the same inequality read from the other side: | ||P|| - ||Q|| | <= ||P - Q||  (a difference that collapses to zero between landscapes of different norm shows here)
  ELSE IF ~FLeqTol(FAbs(FSub(e[3], e[4])), e[5], E12, E9) THEN "triangle-inequality"
  ELSE "ok"
RECURSIVE FirstBadLaw(_, _)
FirstBadLaw(c, i) == IF i > Len(c.rows) THEN <<"ok", 0>> ELSE LET cl == LawClause(c, i) IN IF cl = "ok" THEN FirstBadLaw(c, i + 1) ELSE <<cl, c.rows[i][1]>>
Verdict(c) ==
  IF c.kind = "norms" THEN
     (IF c.lattice = 0 THEN <<"fail", "value-off-lattice", 0>>
      ELSE LET fb == FirstBad(c, 1) IN
           IF fb[1] # "ok" THEN <<"fail", fb[1], c.norms[fb[2]][1]>>
           ELSE IF c.sup[1] = 0 THEN <<"fail", "sup-norm-not-finite", 0>>
           ELSE IF ~Close(c.sup[2], SupOf(c.obj, c.q)) THEN <<"fail", "sup-norm-differs-from-largest-absolute-value", 0>>
           ELSE <<"ok", "", 0>>)
  ELSE IF c.kind = "fnorms" THEN
     (IF ~CrossingOK(c) \/ ~OneSigned(c) THEN <<"machinery", "bad-zero-crossing-certificate", 0>>
      ELSE LET fb == FirstBadF(c, 1) IN IF fb[1] = "ok" THEN <<"ok", "", 0>> ELSE <<"fail", fb[1], fb[2]>>)
  ELSE IF c.kind = "laws" THEN
     (LET fb == FirstBadLaw(c, 1) IN IF fb[1] = "ok" THEN <<"ok", "", 0>> ELSE <<"fail", fb[1], fb[2]>>)
  ELSE \* stability law, both sides observed from the code; inputs on which the exact sweep takes its repeated-bar shortcut are excluded
     (IF SW!RunAll(SW!InitSt(Bars(c.X)), <<>>, TRUE)[1].fired \/ SW!RunAll(SW!InitSt(Bars(c.Y)), <<>>, TRUE)[1].fired THEN <<"excluded", "C03-known-finding-input", 0>>
      ELSE IF c.sup[1] = 0 \/ c.bott[1] = 0 THEN <<"fail", "not-finite", 0>>
      ELSE IF ~FLeqTol(c.sup[2], c.bott[2], E12, E9) THEN <<"fail", "sup-norm-of-difference-exceeds-bottleneck", 0>>
      ELSE <<"ok", "", 0>>)
TInit == k = 1
TNext == /\ k <= Len(Cases)
         /\ PrintT(<<"V", k>> \o Verdict(Cases[k]))
         /\ k' = k + 1
AllConsumed == TLCGet("stats").diameter = Len(Cases) + 1
=============================================================================
