------------------------------- MODULE PL -------------------------------
(* Piecewise-linear functions given by critical points, with exact rational arithmetic on small integers.
   A rational is <<num, den>> with den > 0 (not necessarily reduced).  A function is a sequence of <<x, y>> with x an
   integer tick and y a rational; it is zero outside [first x, last x] (the class used by C09/C10: zero at both ends). *)
EXTENDS Integers, Sequences, FiniteSets, TLC, FiniteSetsExt, SequencesExt
RECURSIVE Gcd(_, _)
Gcd(a, b) == IF b = 0 THEN (IF a < 0 THEN -a ELSE a) ELSE Gcd(b, a % b)
AbsI(x) == IF x < 0 THEN -x ELSE x
RNorm(r0) == LET r == IF r0[2] < 0 THEN <<-r0[1], -r0[2]>> ELSE r0
                g == Gcd(AbsI(r[1]), r[2])
            IN IF g = 0 THEN <<0, 1>> ELSE <<r[1] \div g, r[2] \div g>>
R(n) == <<n, 1>>
RAdd(a, b) == RNorm(<<a[1] * b[2] + b[1] * a[2], a[2] * b[2]>>)
RNeg(a) == <<-a[1], a[2]>>
RSub(a, b) == RAdd(a, RNeg(b))
RMul(a, b) == RNorm(<<a[1] * b[1], a[2] * b[2]>>)
RDivInt(a, n) == IF n > 0 THEN RNorm(<<a[1], a[2] * n>>) ELSE RNorm(<<-a[1], a[2] * (-n)>>)
REq(a, b) == a[1] * b[2] = b[1] * a[2]
RLeq(a, b) == a[1] * b[2] <= b[1] * a[2]
RLt(a, b) == a[1] * b[2] < b[1] * a[2]
RAbs(a) == IF a[1] < 0 THEN <<-a[1], a[2]>> ELSE a
RZero == <<0, 1>>
RSign(a) == IF a[1] > 0 THEN 1 ELSE IF a[1] < 0 THEN -1 ELSE 0

(* ---- definitional evaluation ---- *)
\* value at integer tick t of the function through critical points cp (x strictly increasing), zero outside
Val(cp, t) ==
  IF Len(cp) = 0 THEN RZero
  ELSE IF t < cp[1][1] \/ t > cp[Len(cp)][1] THEN RZero
  ELSE IF \E i \in 1..Len(cp) : cp[i][1] = t THEN cp[CHOOSE i \in 1..Len(cp) : cp[i][1] = t][2]
  ELSE LET i == CHOOSE i \in 1..(Len(cp) - 1) : cp[i][1] < t /\ t < cp[i + 1][1]
           x0 == cp[i][1]  x1 == cp[i + 1][1]  y0 == cp[i][2]  y1 == cp[i + 1][2]
       IN RAdd(y0, RDivInt(RMul(R(t - x0), RSub(y1, y0)), x1 - x0))
StrictlyIncreasing(cp) == \A i \in 1..(Len(cp) - 1) : cp[i][1] < cp[i + 1][1]
ZeroEnded(cp) == Len(cp) = 0 \/ (REq(cp[1][2], RZero) /\ REq(cp[Len(cp)][2], RZero))
Xs(cp) == {cp[i][1] : i \in 1..Len(cp)}
Depth(F, k) == IF k <= Len(F) THEN F[k] ELSE <<>>
AllXs(F) == UNION {Xs(F[k]) : k \in 1..Len(F)}

(* ---- algorithm layer: the merge of slope representations as coded in landscapes/auxiliary.py ---- *)
PosToSlope(l) == [i \in 1..Len(l) |-> IF i < Len(l) THEN <<l[i][1], RDivInt(RSub(l[i + 1][2], l[i][2]), l[i + 1][1] - l[i][1])>>
                                      ELSE <<l[i][1], RZero>>]
RECURSIVE SumSlopes(_, _, _, _)
SumSlopes(a, b, am, bm) ==
  IF Len(a) = 0 /\ Len(b) = 0 THEN <<>>
  ELSE IF Len(a) = 0 \/ (Len(a) > 0 /\ Len(b) > 0 /\ a[1][1] > b[1][1])
       THEN << <<b[1][1], RAdd(am, b[1][2])>> >> \o SumSlopes(a, Tail(b), am, b[1][2])
  ELSE IF Len(b) = 0 \/ (Len(a) > 0 /\ Len(b) > 0 /\ a[1][1] < b[1][1])
       THEN << <<a[1][1], RAdd(a[1][2], bm)>> >> \o SumSlopes(Tail(a), b, a[1][2], bm)
  ELSE << <<a[1][1], RAdd(a[1][2], b[1][2])>> >> \o SumSlopes(Tail(a), Tail(b), a[1][2], b[1][2])
RECURSIVE SlopeToPosRec(_, _, _)
SlopeToPosRec(l, i, acc) ==
  IF i >= Len(l) THEN acc
  ELSE LET y0 == acc[Len(acc)][2]
           y1 == RAdd(y0, RMul(R(l[i + 1][1] - l[i][1]), l[i][2]))
       IN SlopeToPosRec(l, i + 1, Append(acc, <<l[i + 1][1], y1>>))
SlopeToPos(l) == SlopeToPosRec(l, 1, << <<l[1][1], RZero>> >>)
MergeSum(a, b) == SlopeToPos(SumSlopes(PosToSlope(a), PosToSlope(b), RZero, RZero))
\* union_crit_pairs: depth by depth, a missing depth is passed through unchanged
SumLandscapes(A, B) ==
  LET K == IF Len(A) >= Len(B) THEN Len(A) ELSE Len(B)
  IN [k \in 1..K |-> IF k > Len(A) THEN B[k] ELSE IF k > Len(B) THEN A[k] ELSE MergeSum(A[k], B[k])]
ScaleLandscape(A, c) == [k \in 1..Len(A) |-> [i \in 1..Len(A[k]) |-> <<A[k][i][1], RMul(c, A[k][i][2])>>]]
=============================================================================
