---------------------------- MODULE SweepCore ----------------------------
(* Exact persistence landscape (persim/landscapes/exact.py, compute_landscape).
   PROPERTY LAYER : TentDef, KthLargestDef, PLEquals, CorrectFor, OrderedCps, EndsZero
   ALGORITHM LAYER: InitSt, Step (one call = one loop-body branch of the Bubenik-Dlotko sweep as coded),
                    Result.  The two layers share no helper.
   Units: bar endpoints are EVEN ticks so every breakpoint the sweep can create is an integer tick. *)
EXTENDS Integers, Sequences, FiniteSets, TLC, FiniteSetsExt, SequencesExt

INF == 100000000

(* ------------------------------ property layer ------------------------------ *)
TentDef(bar, t) ==
  LET up == t - bar[1]
      dn == bar[2] - t
      m  == IF up <= dn THEN up ELSE dn
  IN  IF m > 0 THEN m ELSE 0

\* k-th largest value (with multiplicity) of the tents at t; 0 if fewer than k bars
KthLargestDef(bars, t, k) ==
  LET vals   == {TentDef(bars[i], t) : i \in 1..Len(bars)} \cup {0}
      cnt(v) == Cardinality({i \in 1..Len(bars) : TentDef(bars[i], t) >= v})
  IN  Max({v \in vals : v = 0 \/ cnt(v) >= k})

\* "the piecewise-linear function through the critical points cp (zero outside them) has value w at t",
\* decided without division; every segment / point that covers t must agree (so a vertical jump is rejected).
PLEquals(cp, t, w) ==
  IF Len(cp) = 0 THEN w = 0
  ELSE IF t < cp[1][1] \/ t > cp[Len(cp)][1] THEN w = 0
  ELSE /\ \A i \in 1..Len(cp) : cp[i][1] = t => cp[i][2] = w
       /\ \A i \in 1..(Len(cp) - 1) :
             (cp[i][1] < t /\ t < cp[i+1][1]) =>
                 (t - cp[i][1]) * (cp[i+1][2] - cp[i][2]) = (w - cp[i][2]) * (cp[i+1][1] - cp[i][1])
       /\ \/ \E i \in 1..Len(cp) : cp[i][1] = t
          \/ \E i \in 1..(Len(cp) - 1) : cp[i][1] < t /\ t < cp[i+1][1]

OrderedCps(cps) == \A k \in 1..Len(cps) : \A i \in 1..(Len(cps[k]) - 1) : cps[k][i][1] <= cps[k][i+1][1]
EndsZero(cps)   == \A k \in 1..Len(cps) : Len(cps[k]) > 0 => (cps[k][1][2] = 0 /\ cps[k][Len(cps[k])][2] = 0)

\* Equality with the mathematical landscape at every integer tick of [lo, hi] and every depth 1..kmax.
\* With all breakpoints on integer ticks this is equality at every real t.
CorrectFor(bars, cps, lo, hi, kmax) ==
  \A k \in 1..kmax : \A t \in lo..hi :
      PLEquals(IF k <= Len(cps) THEN cps[k] ELSE <<>>, t, KthLargestDef(bars, t, k))

FirstBad(bars, cps, lo, hi, kmax) ==
  LET bad == {<<k, t>> \in (1..kmax) \X (lo..hi) :
                ~PLEquals(IF k <= Len(cps) THEN cps[k] ELSE <<>>, t, KthLargestDef(bars, t, k))}
  IN  IF bad = {} THEN <<0, 0>> ELSE CHOOSE x \in bad : \A y \in bad : x[1] < y[1] \/ (x[1] = y[1] /\ x[2] <= y[2])

(* ------------------------------ algorithm layer ------------------------------ *)
Less(x, y) == x[1] < y[1] \/ (x[1] = y[1] /\ x[2] > y[2])
SortBars(s) == SortSeq(s, Less)
SetLast(LL, f) == [LL EXCEPT ![Len(LL)] = f]

\* the code pops duplicates while enumerating the list it pops from (so it skips every other element)
RECURSIVE DupScan(_, _, _, _)
DupScan(AA, j, bd, n) ==
  IF j > Len(AA) THEN <<AA, n>>
  ELSE IF AA[j] = bd THEN DupScan(RemoveAt(AA, j), j + 1, bd, n + 1)
  ELSE <<AA, n>>

RECURSIVE Rep(_, _, _)
Rep(LL, x, n) == IF n = 0 THEN LL ELSE Rep(Append(LL, x), x, n - 1)

\* insertion index of the residual bar (bp, d), as coded
InsIndex(AA, bp, d) ==
  LET c == {i \in 1..Len(AA) : bp <= AA[i][1]} IN
  IF c = {} THEN Len(AA) + 1
  ELSE LET ind == Min(c) IN
       IF bp = AA[ind][1]
       THEN ind + Cardinality({i \in 1..Len(AA) : AA[i][1] = bp /\ d < AA[i][2]})
       ELSE ind

InitSt(bars) == [A |-> SortBars(bars), L |-> <<>>, cur |-> <<0, 0>>, dup |-> 0, pc |-> "pop", fired |-> FALSE]
IsDone(st) == st.pc = "pop" /\ st.A = <<>>

\* Step returns <<new state, event>>; shortcut = TRUE is the code as written (repeated-bar shortcut)
Step(st, shortcut) ==
  IF st.pc = "pop" THEN
     LET bd == Head(st.A)
         r  == IF shortcut THEN DupScan(Tail(st.A), 1, bd, 0) ELSE <<Tail(st.A), 0>>
     IN << [st EXCEPT !.cur = bd, !.A = r[1], !.dup = r[2], !.pc = "ext",
                      !.L = Append(st.L, << <<-INF, 0>>, <<bd[1], 0>>,
                                            <<(bd[1] + bd[2]) \div 2, (bd[2] - bd[1]) \div 2>> >>)],
           <<"pop", bd[1], bd[2], Len(Tail(st.A))>> >>
  ELSE IF \A i \in 1..Len(st.A) : st.cur[2] >= st.A[i][2] THEN
     LET f == Last(st.L) \o << <<st.cur[2], 0>>, <<INF, 0>> >> IN
     << [st EXCEPT !.L = IF shortcut THEN Rep(SetLast(st.L, f), f, st.dup) ELSE SetLast(st.L, f),
                   !.fired = st.fired \/ (shortcut /\ st.dup > 0), !.pc = "pop"],
        <<"end", st.dup, Len(st.A), 0>> >>
  ELSE
     LET i   == Min({j \in 1..Len(st.A) : st.A[j][2] > st.cur[2]})
         bp  == st.A[i][1]
         dp  == st.A[i][2]
         d   == st.cur[2]
         A1  == RemoveAt(st.A, i)
         top == <<(bp + dp) \div 2, (dp - bp) \div 2>>
         newL == IF bp > d THEN SetLast(st.L, Last(st.L) \o << <<d, 0>>, <<bp, 0>>, top >>)
                 ELSE IF bp = d THEN SetLast(st.L, Last(st.L) \o << <<bp, 0>>, top >>)
                 ELSE SetLast(st.L, Last(st.L) \o << <<(bp + d) \div 2, (d - bp) \div 2>>, top >>)
         newA == IF bp >= d THEN A1 ELSE InsertAt(A1, InsIndex(A1, bp, d), <<bp, d>>)
     IN << [st EXCEPT !.L = newL, !.A = newA, !.cur = <<bp, dp>>], <<"ext", bp, dp, Len(newA)>> >>

Strip(f) == SubSeq(f, 2, Len(f) - 1)
Result(st) == [k \in 1..Len(st.L) |-> Strip(st.L[k])]

RECURSIVE RunAll(_, _, _)
RunAll(st, evs, shortcut) ==
  IF IsDone(st) THEN <<st, evs>>
  ELSE LET r == Step(st, shortcut) IN RunAll(r[1], Append(evs, r[2]), shortcut)
=============================================================================
