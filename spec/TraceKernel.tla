------------------------------- MODULE TraceKernel -------------------------------
(* Law table for the kernel CDFs of persim/images_kernels.py (C13), evaluated by TLC on recorded evaluation grids.
   Arguments are on the lattice z = (x - mu)/sd = t/8, t an integer ("eighths"); values are Fix records.
   case kinds
     "grid"   : rho-pair.  ts = lattice coordinates (eighths, increasing, symmetric, reaching +-80 = 10 sd),
                VP[i][j] = F(ts[i], ts[j]; rho), VM[i][j] = F(ts[i], ts[j]; -rho)  (entries [finite, value]),
                anchor = [num, den] with F(0,0;rho) = 1/4 + num/den (den = 0: no anchor known for this rho)
     "seam"   : two grids VA, VB at rho0 - eps and rho0 + eps, eps = 1e-6 ; r0 = [num, den], bound (Fix) = allowed change, verified here
     "slepian": two grids VA (rho1) and VB (rho2) with rho1 < rho2, same means and variances: VA <= VB entrywise
     "limit"  : V at rho = 1 - 1e-6 : F -> Phi(min(h,k)) within sqrt(1 - rho^2)
     "product": zero covariance: VG (gaussian with diagonal covariance), VS (sbvn_cdf), N1 (norm_cdf on ts) against the Phi table
     "productx": zero covariance at off-lattice points: VG, VS against the product of NX, NY (univariate CDF at exactly standardised coordinates)
     "uniform": box CDF: pts = [[x, y, mx, my, w, h, [finite, value]]] in ticks                                               *)
EXTENDS Tables, FiniteSets, TLC, FiniteSetsExt, SequencesExt, Json, IOUtils, TLCExt
Cases == JsonDeserialize(IOEnv.TRACE_FILE)
VARIABLE k
E7 == [s |-> 1, m |-> <<0, 0, 10>>]         \* 1e-7 : the accuracy the property grants the correlated CDF
AbsI(x) == IF x < 0 THEN -x ELSE x
PhiExt(t) == IF t < -80 THEN FZero ELSE IF t > 80 THEN FInt(1) ELSE PhiTab(t)
One == FInt(1)
Millionth == FDivInt(FDivInt(FInt(1), 1000), 1000)
Quarter == [s |-> 1, m |-> <<0, 0, 0, 2500>>]
Fin(M) == \A i \in 1..Len(M) : \A j \in 1..Len(M[i]) : M[i][j][1] = 1
Vv(M, i, j) == M[i][j][2]
First(S) == CHOOSE x \in S : \A y \in S : x[1] < y[1] \/ (x[1] = y[1] /\ x[2] <= y[2])
\* generic CDF laws on one grid; returns <<clause, i, j>>
CdfLaws(M, ts) ==
  LET n == Len(ts)
      I == 1..n
      range == {<<i, j>> \in I \X I : ~(FLeq(FNeg(E7), Vv(M, i, j)) /\ FLeq(Vv(M, i, j), FAdd(One, E7)))}
      mono1 == {<<i, j>> \in (1..(n - 1)) \X I : ~FLeq(Vv(M, i, j), FAdd(Vv(M, i + 1, j), E7))}
      mono2 == {<<i, j>> \in I \X (1..(n - 1)) : ~FLeq(Vv(M, i, j), FAdd(Vv(M, i, j + 1), E7))}
      rect  == {<<i, j>> \in (1..(n - 1)) \X (1..(n - 1)) :
                  ~FLeq(FNeg(E7), FSub(FAdd(Vv(M, i + 1, j + 1), Vv(M, i, j)), FAdd(Vv(M, i + 1, j), Vv(M, i, j + 1))))}
      tail0 == {<<i, j>> \in I \X I : (ts[i] <= -80 \/ ts[j] <= -80) /\ ~FLeq(Vv(M, i, j), E7)}
      tail1 == {<<i, j>> \in I \X I : (ts[i] >= 80 /\ ts[j] >= 80) /\ ~FLeq(FSub(One, E7), Vv(M, i, j))}
      margA == {<<i, j>> \in I \X I : ts[j] >= 80 /\ ~FClose(Vv(M, i, j), PhiExt(ts[i]), E7)}
      margB == {<<i, j>> \in I \X I : ts[i] >= 80 /\ ~FClose(Vv(M, i, j), PhiExt(ts[j]), E7)}
      \* the CDF of a standardised pair is symmetric in its two arguments
      symm  == {<<i, j>> \in I \X I : i < j /\ ~FClose(Vv(M, i, j), Vv(M, j, i), E7)}
      \* Frechet-Hoeffding bounds: max(0, Phi(h)+Phi(k)-1) <= F(h,k) <= min(Phi(h), Phi(k))
      frech == {<<i, j>> \in I \X I : ~(FLeq(Vv(M, i, j), FAdd(FMin(PhiExt(ts[i]), PhiExt(ts[j])), E7))
                                         /\ FLeq(FSub(FAdd(PhiExt(ts[i]), PhiExt(ts[j])), FAdd(One, E7)), Vv(M, i, j)))}
  IN IF range # {} THEN <<"value-outside-unit-interval">> \o First(range)
     ELSE IF tail0 # {} THEN <<"lower-tail-not-zero">> \o First(tail0)
     ELSE IF tail1 # {} THEN <<"upper-tail-not-one">> \o First(tail1)
     ELSE IF margA # {} THEN <<"marginal-differs-from-normal-cdf">> \o First(margA)
     ELSE IF margB # {} THEN <<"marginal-differs-from-normal-cdf">> \o First(margB)
     ELSE IF frech # {} THEN <<"outside-frechet-bounds">> \o First(frech)
     ELSE IF symm # {} THEN <<"not-symmetric-in-its-arguments">> \o First(symm)
     ELSE IF mono1 # {} THEN <<"decreasing-in-first-argument">> \o First(mono1)
     ELSE IF mono2 # {} THEN <<"decreasing-in-second-argument">> \o First(mono2)
     ELSE IF rect # {} THEN <<"negative-rectangle-mass">> \o First(rect)
     ELSE <<"ok", 0, 0>>
IdxOf(ts, t) == CHOOSE i \in 1..Len(ts) : ts[i] = t
GridVerdict(c) ==
  LET ts == c.ts n == Len(ts) I == 1..n IN
  IF ~Fin(c.VP) \/ ~Fin(c.VM) THEN <<"fail", "not-finite", 0, 0>>
  ELSE LET lp == CdfLaws(c.VP, ts) lm == CdfLaws(c.VM, ts) IN
       IF lp[1] # "ok" THEN <<"fail">> \o lp
       ELSE IF lm[1] # "ok" THEN <<"fail">> \o lm
       ELSE IF c.anchor[2] # 0 /\ ~FClose(Vv(c.VP, IdxOf(ts, 0), IdxOf(ts, 0)), FAdd(Quarter, FDivInt(FInt(c.anchor[1]), c.anchor[2])), E7)
            THEN <<"fail", "value-at-the-mean-differs-from-quarter-plus-asin-rho-over-2pi", 0, 0>>
       ELSE IF c.anchor[2] # 0 /\ ~FClose(Vv(c.VM, IdxOf(ts, 0), IdxOf(ts, 0)), FSub(Quarter, FDivInt(FInt(c.anchor[1]), c.anchor[2])), E7)
            THEN <<"fail", "value-at-the-mean-differs-from-quarter-plus-asin-rho-over-2pi", 0, 0>>
       ELSE \* reflection identity F(h,k;rho) + F(h,-k;-rho) = Phi(h)   (ts is symmetric)
            LET refl == {<<i, j>> \in I \X I : ~FClose(FAdd(Vv(c.VP, i, j), Vv(c.VM, i, IdxOf(ts, -ts[j]))), PhiExt(ts[i]), FMulInt(E7, 2))}
            IN IF refl # {} THEN <<"fail", "reflection-identity">> \o First(refl) ELSE <<"ok", "", 0, 0>>
\* eps/(pi sqrt(1-rm^2)) <= bound <= 1.05 * that, decided by squaring (rm = |rho0| + eps, all rational)
BoundOK(c) ==
  LET eps == Millionth                                                        \* eps = 1e-6 (fixed)
      rm == FAdd(FDivInt(FInt(AbsI(c.r0[1])), c.r0[2]), eps)                    \* rm = |rho0| + eps
      oneminus == FSub(One, FMul(rm, rm))
      \* work with bound/eps to stay well inside the fixed-point resolution: (bound/eps)^2 pi^2 (1 - rm^2) in [1, 1.1]
      be == FMulInt(FMulInt(c.bound, 1000), 1000)
      lhs == FMul(FMul(FMul(be, be), FMul(Pi, Pi)), oneminus)
      eps2 == One
  IN FLeq(eps2, FAdd(lhs, E15)) /\ FLeq(lhs, FAdd(FMul(eps2, [s |-> 1, m |-> <<0, 0, 0, 1100, 1>>]), E15))
SeamVerdict(c) ==
  LET n == Len(c.ts) I == 1..n IN
  IF ~BoundOK(c) THEN <<"machinery", "bad-seam-bound", 0, 0>>
  ELSE IF ~Fin(c.VA) \/ ~Fin(c.VB) THEN <<"fail", "not-finite", 0, 0>>
  ELSE LET bad == {<<i, j>> \in I \X I : ~FClose(Vv(c.VA, i, j), Vv(c.VB, i, j), FAdd(E7, c.bound))}
       IN IF bad # {} THEN <<"fail", "two-algorithms-disagree-across-branch-threshold">> \o First(bad) ELSE <<"ok", "", 0, 0>>
LimitVerdict(c) ==   \* rho = 1 - 1/big : (F - Phi(min))^2 <= 1 - rho^2
  LET n == Len(c.ts) I == 1..n
      rho == FSub(One, Millionth)                                              \* rho = 1 - 1e-6 (fixed)
      lim == FSub(One, FMul(rho, rho))
      bad == {<<i, j>> \in I \X I : LET d == FSub(Vv(c.V, i, j), PhiExt(IF (c.ts[i] <= c.ts[j]) THEN c.ts[i] ELSE c.ts[j])) IN ~FLeq(FMul(d, d), FAdd(lim, E15))}
  IN IF ~Fin(c.V) THEN <<"fail", "not-finite", 0, 0>>
     ELSE IF bad # {} THEN <<"fail", "high-correlation-limit">> \o First(bad) ELSE <<"ok", "", 0, 0>>
\* Slepian: for fixed (h,k) the bivariate normal CDF is non-decreasing in the correlation
SlepianVerdict(c) ==
  LET n == Len(c.ts) I == 1..n
      bad == {<<i, j>> \in I \X I : ~FLeq(Vv(c.VA, i, j), FAdd(Vv(c.VB, i, j), E7))}
  IN IF ~Fin(c.VA) \/ ~Fin(c.VB) THEN <<"fail", "not-finite", 0, 0>>
     ELSE IF bad # {} THEN <<"fail", "decreasing-in-the-correlation">> \o First(bad) ELSE <<"ok", "", 0, 0>>
ProductVerdict(c) ==
  LET n == Len(c.ts) I == 1..n
      badG == {<<i, j>> \in I \X I : c.VG[i][j][1] = 0 \/ ~FClose(Vv(c.VG, i, j), FMul(PhiExt(c.ts[i]), PhiExt(c.ts[j])), E12)}
      badS == {<<i, j>> \in I \X I : c.VS[i][j][1] = 0 \/ ~FClose(Vv(c.VS, i, j), FMul(PhiExt(c.ts[i]), PhiExt(c.ts[j])), E12)}
      badN == {<<i, 0>> : i \in {i \in I : c.N1[i][1] = 0 \/ ~FClose(c.N1[i][2], PhiExt(c.ts[i]), E12)}}
  IN IF badN # {} THEN <<"fail", "norm_cdf-differs-from-table">> \o First(badN)
     ELSE IF badS # {} THEN <<"fail", "sbvn_cdf-not-product-of-marginals">> \o First(badS)
     ELSE IF badG # {} THEN <<"fail", "zero-covariance-gaussian-not-product-of-marginals">> \o First(badG)
     ELSE <<"ok", "", 0, 0>>
\* kind "productx": off-lattice points; NX, NY = the code\'s univariate CDF at the exactly standardised coordinates (the harness forms them in
\* rational arithmetic from the doubles the code receives); the zero-covariance kernel is their product to the 1e-7 the property grants
ProductXVerdict(c) ==
  LET n == Len(c.NX) I == 1..n
      fin == (\A i \in I : c.NX[i][1] = 1 /\ c.NY[i][1] = 1)
      badG == {<<i, j>> \in I \X I : c.VG[i][j][1] = 0 \/ ~FClose(Vv(c.VG, i, j), FMul(c.NX[i][2], c.NY[j][2]), E7)}
      badS == {<<i, j>> \in I \X I : c.VS[i][j][1] = 0 \/ ~FClose(Vv(c.VS, i, j), FMul(c.NX[i][2], c.NY[j][2]), E7)}
  IN IF ~fin THEN <<"fail", "not-finite", 0, 0>>
     ELSE IF badS # {} THEN <<"fail", "sbvn_cdf-not-product-of-marginals">> \o First(badS)
     ELSE IF badG # {} THEN <<"fail", "zero-covariance-gaussian-not-product-of-marginals">> \o First(badG)
     ELSE <<"ok", "", 0, 0>>
Clamp(x, lo, hi) == IF x < lo THEN lo ELSE IF x > hi THEN hi ELSE x
UniformVerdict(c) ==   \* coordinates in HALF ticks so that centre +- width/2 is an integer
  LET bad == {i \in 1..Len(c.pts) :
                LET p == c.pts[i]
                    cx == Clamp(p[1] - (p[3] - p[5] \div 2), 0, p[5])
                    cy == Clamp(p[2] - (p[4] - p[6] \div 2), 0, p[6])
                IN p[7][1] = 0 \/ ~FClose(p[7][2], FDivInt(FInt(cx * cy), p[5] * p[6]), E12)}
  IN IF bad # {} THEN <<"fail", "uniform-kernel-not-box-cdf", Min(bad), 0>> ELSE <<"ok", "", 0, 0>>
\* kind "ridge": R = values along the ridge (x - mu_x)/sd_x = sgn (y - mu_y)/sd_y of a correlated kernel (decimal means, non-dyadic standard
\* deviations and steps: the two standardised coordinates agree only up to the last bits), sgn = 1 : both coordinates increase together, so the
\* CDF is non-decreasing along it; Up = Phi at the ridge abscissae (Frechet upper bound min(Phi(h), Phi(k)) = Phi(z)) as Fix records from the harness\'s
\* lattice points z = t/8.  Every value finite, within [0, 1], below the Frechet bound; monotone when sgn = 1.
RidgeVerdict(c) ==
  LET n == Len(c.R) IN
  IF \E i \in 1..n : c.R[i][1] = 0 THEN <<"fail", "not-finite", 0, 0>>
  ELSE IF \E i \in 1..n : ~(FLeq(FNeg(E12), c.R[i][2]) /\ FLeq(c.R[i][2], FAdd(FInt(1), E12))) THEN <<"fail", "outside-unit-interval", 0, 0>>
  ELSE IF c.sgn = 1 /\ \E i \in 1..(n - 1) : ~FLeq(c.R[i][2], FAdd(c.R[i + 1][2], E12)) THEN <<"fail", "decreasing-in-an-argument", 0, 0>>
  ELSE IF c.sgn = 1 /\ c.frechet = 1 /\ \E i \in 1..n : ~FLeq(c.R[i][2], FAdd(PhiTab(c.ts[i]), E9)) THEN <<"fail", "outside-frechet-bounds", 0, 0>>
  ELSE <<"ok", "", 0, 0>>
Verdict(c) == CASE c.kind = "ridge" -> RidgeVerdict(c) [] c.kind = "grid" -> GridVerdict(c) [] c.kind = "seam" -> SeamVerdict(c) [] c.kind = "limit" -> LimitVerdict(c)
                [] c.kind = "slepian" -> SlepianVerdict(c) [] c.kind = "product" -> ProductVerdict(c) [] c.kind = "productx" -> ProductXVerdict(c) [] c.kind = "uniform" -> UniformVerdict(c)
TInit == k = 1
TNext == /\ k <= Len(Cases)
         /\ PrintT(<<"V", k>> \o Verdict(Cases[k]))
         /\ k' = k + 1
AllConsumed == TLCGet("stats").diameter = Len(Cases) + 1
=============================================================================
