------------------------------ MODULE GridLandscape ------------------------------
(* PersLandscapeApprox.compute_landscape as a state machine: Snap all bars, then one AddRamp action per bar filling the
   per-node lists W, then SortColumns and Assemble.  Checked for EVERY multiset of at most MaxBars bars with arbitrary
   (off-grid) integer endpoints on a grid of N nodes with step S ticks.                                                *)
EXTENDS GridCore
CONSTANTS N, S, MaxBars
VARIABLES bars, snapped, W, j, vals, pc
vars == <<bars, snapped, W, j, vals, pc>>
Top == (N - 1) * S
BarSet == {<<b, d>> \in (0..Top) \X (0..Top) : b < d}
Le(x, y) == x[1] < y[1] \/ (x[1] = y[1] /\ x[2] <= y[2])
Inputs == { q \in UNION {[1..m -> BarSet] : m \in 1..MaxBars} : \A i \in 1..(Len(q) - 1) : Le(q[i], q[i+1]) }
Init == /\ bars \in Inputs /\ snapped = <<>> /\ W = [i \in 0..(N - 1) |-> <<>>] /\ j = 1 /\ vals = <<>> /\ pc = "snap"
SnapAll == /\ pc = "snap"
           /\ snapped' = [q \in 1..Len(bars) |-> <<Snap(bars[q][1], N, S), Snap(bars[q][2], N, S)>>]
           /\ pc' = "ramps" /\ UNCHANGED <<bars, W, j, vals>>
AddRamp == /\ pc = "ramps" /\ j <= Len(bars)
           /\ W' = [i \in 0..(N - 1) |-> LET r == Ramp(snapped[j][1], snapped[j][2], i, S)
                                         IN IF r > 0 THEN Append(W[i], r) ELSE W[i]]
           /\ j' = j + 1 /\ UNCHANGED <<bars, snapped, vals, pc>>
SortColumns == /\ pc = "ramps" /\ j > Len(bars)
               /\ W' = [i \in 0..(N - 1) |-> SortSeq(W[i], >)]
               /\ pc' = "assemble" /\ UNCHANGED <<bars, snapped, j, vals>>
Assemble == /\ pc = "assemble"
            /\ LET K == Max({Len(W[i]) : i \in 0..(N - 1)})
               IN vals' = [k \in 1..K |-> [i \in 1..N |-> IF k <= Len(W[i - 1]) THEN W[i - 1][k] ELSE 0]]
            /\ pc' = "done" /\ UNCHANGED <<bars, snapped, W, j>>
Next == SnapAll \/ AddRamp \/ SortColumns \/ Assemble
Spec == Init /\ [][Next]_vars
FairSpec == Spec /\ WF_vars(Next)
Termination == <>(pc = "done")
\* the input bars are never written (C19 at the level of this routine) and the bar counter only advances
InputUntouched == [][bars' = bars /\ j' >= j]_vars

HalfStep    == pc = "done" => HalfStepOK(bars, N, S, vals)
ExactOnGrid == (pc = "done" /\ OnGrid(bars, S)) => ExactOK(bars, N, S, vals)
\* snapping moves every endpoint by at most half a step (the per-bar half of the bound)
SnapWithinHalf == pc # "snap" => \A q \in 1..Len(bars) : 2 * Abs(snapped[q][1] * S - bars[q][1]) <= S /\ 2 * Abs(snapped[q][2] * S - bars[q][2]) <= S
\* the assembled values are the k-th largest ramp entries (what the sort + fill is for)
AssembleIsKth == pc = "done" => \A i \in 0..(N - 1) : \A k \in 1..(Len(bars) + 1) :
      Obs(vals, k, i) = KthOfSeq([q \in 1..Len(bars) |-> Ramp(snapped[q][1], snapped[q][2], i, S)], k)
=============================================================================
