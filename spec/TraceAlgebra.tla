------------------------------- MODULE TraceAlgebra -------------------------------
(* Batch validation of recorded landscape-arithmetic histories (C09).  x in ticks (integers), y in 1/q ticks (integers).
   case : q, lattice, events.   event : op, args (operand names), c = [num, den], coeffs = [[num, den]], res (new names),
          raised (0/1), mustraise (0/1), digs = [[name, digest]] of EVERY live object after the event,
          news = [[name, kind, hom, a, s, n, content]]   kind 1 exact: content = depths of [[x, y]] ; kind 2 grid: content = K x n values,
          grid nodes a + i*s, i < n ; gridspec = [a, s, n] requested for snap / lc / avg.
   Objects are compared AS FUNCTIONS: at every depth and at every tick of the union of all breakpoints involved.           *)
EXTENDS PL, Json, IOUtils, TLCExt
Cases == JsonDeserialize(IOEnv.TRACE_FILE)
VARIABLE k

Ry(y, q) == <<y, q>>
\* value of depth kk of object o at integer tick t, as a rational (in ticks)
ExactCp(o, kk, q) == IF kk <= Len(o[7]) THEN [i \in 1..Len(o[7][kk]) |-> <<o[7][kk][i][1], Ry(o[7][kk][i][2], q)>>] ELSE <<>>
\* consistent critical points: abscissae non-decreasing, equal abscissae carry equal ordinates
Consistent(cp) == \A i \in 1..(Len(cp) - 1) : cp[i][1] <= cp[i + 1][1] /\ (cp[i][1] = cp[i + 1][1] => REq(cp[i][2], cp[i + 1][2]))
ValC(cp, t) ==   \* like PL!Val but tolerant of repeated abscissae
  IF Len(cp) = 0 THEN RZero
  ELSE IF t < cp[1][1] \/ t > cp[Len(cp)][1] THEN RZero
  ELSE IF \E i \in 1..Len(cp) : cp[i][1] = t THEN cp[CHOOSE i \in 1..Len(cp) : cp[i][1] = t][2]
  ELSE LET i == CHOOSE i \in 1..(Len(cp) - 1) : cp[i][1] < t /\ t < cp[i + 1][1]
       IN RAdd(cp[i][2], RDivInt(RMul(R(t - cp[i][1]), RSub(cp[i + 1][2], cp[i][2])), cp[i + 1][1] - cp[i][1]))
GridCp(o, kk, q) == IF kk <= Len(o[7]) THEN [i \in 1..o[6] |-> <<o[4] + (i - 1) * o[5], Ry(o[7][kk][i], q)>>] ELSE <<>>
Cp(o, kk, q) == IF o[2] = 1 THEN ExactCp(o, kk, q) ELSE GridCp(o, kk, q)
F(o, kk, t, q) == ValC(Cp(o, kk, q), t)
NDepth(o) == Len(o[7])
XsOf(o, q) == UNION {Xs(Cp(o, kk, q)) : kk \in 1..NDepth(o)}
MaxD(S) == Max({0} \cup {NDepth(o) : o \in S})
Probe(S, q) == LET xs == UNION {XsOf(o, q) : o \in S} IN IF xs = {} THEN {0} ELSE xs \cup {Min(xs) - 1, Max(xs) + 1}
\* R = sum_i c_i * O_i as functions
RECURSIVE Comb(_, _, _, _, _, _)
Comb(os, cs, i, kk, t, q) == IF i > Len(os) THEN RZero ELSE RAdd(RMul(cs[i], F(os[i], kk, t, q)), Comb(os, cs, i + 1, kk, t, q))
IsCombAt(r, os, cs, q, P) ==
  LET S == {r} \cup {os[i] : i \in 1..Len(os)} IN
  /\ \A kk \in 1..NDepth(r) : Consistent(Cp(r, kk, q))
  /\ \A kk \in 1..(MaxD(S) + 1) : \A t \in P : REq(F(r, kk, t, q), Comb(os, cs, 1, kk, t, q))
\* arithmetic: equality as functions = equality at every breakpoint of everything involved (and just outside)
IsComb(r, os, cs, q) == IsCombAt(r, os, cs, q, Probe({r} \cup {os[i] : i \in 1..Len(os)}, q))
\* re-sampling: equality at the nodes of the NEW grid (a coarser grid legitimately forgets what lies between its nodes)
NodesOf(r) == {r[4] + i * r[5] : i \in 0..(r[6] - 1)}
IsResampledComb(r, os, cs, q) == IsCombAt(r, os, cs, q, NodesOf(r))
SameGrid(r, o) == r[4] = o[4] /\ r[5] = o[5] /\ r[6] = o[6]
GridIs(r, g) == r[2] = 2 /\ r[4] = g[1] /\ r[5] = g[2] /\ r[6] = g[3]
One == <<1, 1>>
Rc(c) == RNorm(<<c[1], c[2]>>)

Lookup(env, name) == LET i == CHOOSE i \in 1..Len(env) : env[i][1] = name IN env[i]
Has(env, name) == \E i \in 1..Len(env) : env[i][1] = name
DigOf(digs, name) == LET i == CHOOSE i \in 1..Len(digs) : digs[i][1] = name IN digs[i][2]

\* clause for one event, given the environment before it
Clause(e, env, q) ==
  LET ops == [i \in 1..Len(e.args) |-> Lookup(env, e.args[i])]
      rs  == [i \in 1..Len(e.news) |-> e.news[i]]
  IN
  IF e.mustraise = 1 THEN (IF e.raised = 1 THEN "ok" ELSE "mismatched-operands-not-rejected")
  ELSE IF e.raised = 1 THEN "valid-operation-raised"
  ELSE CASE e.op \in {"new"} -> "ok"
    [] e.op = "add" -> IF rs[1][2] = ops[1][2] /\ rs[1][3] = ops[1][3] /\ (rs[1][2] = 1 \/ SameGrid(rs[1], ops[1])) /\ IsComb(rs[1], ops, <<One, One>>, q) THEN "ok" ELSE "sum-not-pointwise"
    [] e.op = "sub" -> IF rs[1][2] = ops[1][2] /\ rs[1][3] = ops[1][3] /\ (rs[1][2] = 1 \/ SameGrid(rs[1], ops[1])) /\ IsComb(rs[1], ops, <<One, <<-1, 1>>>>, q) THEN "ok" ELSE "difference-not-pointwise"
    [] e.op = "neg" -> IF rs[1][2] = ops[1][2] /\ rs[1][3] = ops[1][3] /\ (rs[1][2] = 1 \/ SameGrid(rs[1], ops[1])) /\ IsComb(rs[1], ops, << <<-1, 1>> >>, q) THEN "ok" ELSE "negation-not-pointwise"
    [] e.op \in {"mul", "rmul"} -> IF rs[1][2] = ops[1][2] /\ rs[1][3] = ops[1][3] /\ (rs[1][2] = 1 \/ SameGrid(rs[1], ops[1])) /\ IsComb(rs[1], ops, <<Rc(e.c)>>, q) THEN "ok" ELSE "scalar-multiple-not-pointwise"
    [] e.op = "div" -> IF rs[1][2] = ops[1][2] /\ rs[1][3] = ops[1][3] /\ (rs[1][2] = 1 \/ SameGrid(rs[1], ops[1])) /\ IsComb(rs[1], ops, << RNorm(<<e.c[2], e.c[1]>>) >>, q) THEN "ok" ELSE "quotient-not-pointwise"
    [] e.op = "snap" -> IF Len(rs) = Len(ops) /\ \A i \in 1..Len(ops) : (GridIs(rs[i], e.gridspec) /\ rs[i][3] = ops[i][3] /\ IsResampledComb(rs[i], <<ops[i]>>, <<One>>, q)) THEN "ok" ELSE "resampling-not-linear-interpolation"
    [] e.op \in {"lc", "avg"} -> IF GridIs(rs[1], e.gridspec) /\ IsResampledComb(rs[1], ops, [i \in 1..Len(e.coeffs) |-> Rc(e.coeffs[i])], q) THEN "ok" ELSE "linear-combination-not-pointwise"
    [] OTHER -> "unknown-op"

RECURSIVE Walk(_, _, _, _)
Walk(c, i, env, digs) ==    \* env: sequence of objects [name, kind, hom, a, s, n, content] ; digs: digests after the previous event
  IF i > Len(c.events) THEN <<"ok", 0, "">>
  ELSE LET e == c.events[i]
           changed == {j \in 1..Len(digs) : \E m \in 1..Len(e.digs) : e.digs[m][1] = digs[j][1] /\ e.digs[m][2] # digs[j][2]}
           vanished == {j \in 1..Len(digs) : ~\E m \in 1..Len(e.digs) : e.digs[m][1] = digs[j][1]}
       IN IF changed # {} \/ vanished # {} THEN <<"fail", i, "operand-or-bystander-changed-by-operation">>
          ELSE LET cl == Clause(e, env, c.q) IN
               IF cl # "ok" THEN <<"fail", i, cl>>
               ELSE Walk(c, i + 1, env \o [j \in 1..Len(e.news) |-> e.news[j]], e.digs)
Verdict(c) == IF c.lattice = 0 THEN <<"fail", 0, "value-off-lattice">> ELSE Walk(c, 1, <<>>, <<>>)
TInit == k = 1
TNext == /\ k <= Len(Cases)
         /\ PrintT(<<"V", k>> \o Verdict(Cases[k]))
         /\ k' = k + 1
AllConsumed == TLCGet("stats").diameter = Len(Cases) + 1
=============================================================================
