------------------------------ MODULE TraceImager ------------------------------
(* Batch validation of recorded PersistenceImager configuration histories against the C12 contract.
   Units: requested values in ticks; observations in 1/q HALF ticks (q in the case).  One case = one history.
   event fields: op ("ctor","birth","pers","pix","fit"), r1 (birth range asked, ticks), r2 (persistence range asked), pz (pixel
   size asked, ticks; 0 if none), pts (fitted points as [birth, pers] in ticks, already in birth-persistence coordinates),
   lattice (0/1), obs = [ps, b0, b1, p0, p1, W, H] in 1/q half ticks, res = [rx, ry], shapes = [[sx, sy]] (the distinct shapes of
   all images produced after the operation: single diagrams, members of collections, empty diagrams alone and inside a collection),
   probes = [[i, j, [[ii, jj, mass_ppb], ...]]] : image of one unit-weight point placed tick/8 inside a corner of pixel (i,j) under a tiny
   box kernel (side tick/16): the mesh has square pixels of the configured size aligned with the covered range only if all of the mass
   lands in exactly that pixel, for all four corners.                                                                                                       *)
EXTENDS Integers, Sequences, FiniteSets, TLC, FiniteSetsExt, Json, IOUtils, TLCExt
Cases == JsonDeserialize(IOEnv.TRACE_FILE)
VARIABLE k
Abs(x) == IF x >= 0 THEN x ELSE -x
CeilDiv(a, b) == (a + b - 1) \div b

\* what the operation asked for, in 1/q half ticks: <<birth lo, birth hi, pers lo, pers hi, ps>>
Asked(e, prev, q) ==
  LET u == 2 * q IN
  CASE e.op = "ctor"  -> <<u * e.r1[1], u * e.r1[2], u * e.r2[1], u * e.r2[2], u * e.pz>>
    [] e.op = "birth" -> <<u * e.r1[1], u * e.r1[2], prev[4], prev[5], prev[1]>>
    [] e.op = "pers"  -> <<prev[2], prev[3], u * e.r2[1], u * e.r2[2], prev[1]>>
    [] e.op = "pix"   -> <<prev[2], prev[3], prev[4], prev[5], u * e.pz>>
    [] e.op = "fit"   -> <<u * Min({e.pts[i][1] : i \in 1..Len(e.pts)}), u * Max({e.pts[i][1] : i \in 1..Len(e.pts)}),
                           u * Min({e.pts[i][2] : i \in 1..Len(e.pts)}), u * Max({e.pts[i][2] : i \in 1..Len(e.pts)}), prev[1]>>
\* the contract, on one event
Clause(e, prev, q) ==
  LET a == Asked(e, prev, q)
      o == e.obs
      ps == o[1] IN
  IF e.lattice = 0 THEN "attribute-off-lattice"
  ELSE IF ps # a[5] THEN "pixel-size-not-as-configured"
  ELSE IF ~(e.res[1] * ps = o[6] /\ e.res[2] * ps = o[7]) THEN "resolution-times-pixel-size-differs-from-width-height"
  ELSE IF ~(o[6] = o[3] - o[2] /\ o[7] = o[5] - o[4]) THEN "width-height-differ-from-covered-range"
  ELSE IF \E si \in 1..Len(e.shapes) : ~(e.shapes[si][1] = e.res[1] /\ e.shapes[si][2] = e.res[2]) THEN "image-shape-differs-from-resolution"
  ELSE IF ~(o[2] <= a[1] /\ a[2] <= o[3] /\ o[4] <= a[3] /\ a[4] <= o[5]) THEN "covered-range-does-not-contain-request"
  ELSE IF ~((o[3] - o[2]) - (a[2] - a[1]) <= ps /\ (o[5] - o[4]) - (a[4] - a[3]) <= ps) THEN "covered-range-exceeds-request-by-more-than-a-pixel"
  ELSE IF \E pi \in 1..Len(e.probes) :
            LET pr == e.probes[pi] IN
            ~(Len(pr[3]) = 1 /\ pr[3][1][1] = pr[1] /\ pr[3][1][2] = pr[2] /\ Abs(pr[3][1][3] - 1000000000) <= 100)
       THEN "pixels-not-squares-of-configured-size"
  ELSE "ok"
\* algorithm layer: the setters' arithmetic in exact integers (1/q half ticks)
Impl(e, prev, q) ==
  LET a == Asked(e, prev, q)
      pz == a[5]
      w == CeilDiv(a[2] - a[1], pz) * pz
      h == CeilDiv(a[4] - a[3], pz) * pz
      \* range setters keep the other axis' width
      ww == IF e.op = "pers" THEN prev[6] ELSE w
      hh == IF e.op = "birth" THEN prev[7] ELSE h
      db == ww - (a[2] - a[1])
      dp == hh - (a[4] - a[3])
  IN <<pz, a[1] - db \div 2, a[2] + db \div 2, a[3] - dp \div 2, a[4] + dp \div 2, ww, hh>>
RECURSIVE Walk(_, _, _, _)
Walk(c, i, prev, div) ==
  IF i > Len(c.events) THEN <<"ok", 0, "", div>>
  ELSE LET e == c.events[i]
           cl == Clause(e, prev, c.q)
           o == <<e.obs[1], e.obs[2], e.obs[3], e.obs[4], e.obs[5], e.obs[6], e.obs[7]>>
       IN IF cl # "ok" THEN <<"fail", i, cl, div>>
          ELSE Walk(c, i + 1, o, IF div = 0 /\ c.exactemb = 1 /\ Impl(e, prev, c.q) # o THEN i ELSE div)
Verdict(c) == LET r == Walk(c, 1, <<0, 0, 0, 0, 0, 0, 0>>, 0) IN
              IF r[1] = "ok" /\ r[4] # 0 THEN <<"divergence", r[4], "attributes-differ-from-setter-arithmetic", r[4]>> ELSE r
TInit == k = 1
TNext == /\ k <= Len(Cases)
         /\ PrintT(<<"V", k>> \o Verdict(Cases[k]))
         /\ k' = k + 1
AllConsumed == TLCGet("stats").diameter = Len(Cases) + 1
=============================================================================
