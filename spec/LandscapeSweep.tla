---------------------------- MODULE LandscapeSweep ----------------------------
(* Model of the exact-landscape sweep over ALL multisets of at most MaxBars bars with even endpoints in 0..MaxT.
   WithShortcut = FALSE : the intended design (no repeated-bar shortcut)  -> Correct must hold
   WithShortcut = TRUE  : the code as written                              -> CorrectOrFired must hold  *)
EXTENDS SweepCore
CONSTANTS MaxT, MaxBars, WithShortcut
VARIABLES st, input
vars == <<st, input>>

BarSet == {<<b, d>> \in (0..MaxT) \X (0..MaxT) : b < d /\ b % 2 = 0 /\ d % 2 = 0}
SortedInputs == { s \in UNION {[1..n -> BarSet] : n \in 1..MaxBars} :
                     \A i \in 1..(Len(s) - 1) : Less(s[i], s[i+1]) \/ s[i] = s[i+1] }

Init == input \in SortedInputs /\ st = InitSt(input)
Next == ~IsDone(st) /\ st' = Step(st, WithShortcut)[1] /\ UNCHANGED input
Spec == Init /\ [][Next]_vars
\* liveness: the sweep finishes on every input (the while-loops with re-insertion make progress)
FairSpec == Spec /\ WF_vars(Next)
Termination == <>IsDone(st)
\* finished depths are never rewritten: the output grows by whole depths and by appended critical points only
DepthsAppendOnly == [][\A k \in 1..(Len(st.L) - 1) : k <= Len(st'.L) /\ st'.L[k] = st.L[k]]_vars

KMax == MaxBars + 1
Correct        == IsDone(st) => CorrectFor(input, Result(st), 0 - 1, MaxT + 1, KMax)
CorrectOrFired == IsDone(st) => (st.fired \/ CorrectFor(input, Result(st), 0 - 1, MaxT + 1, KMax))
OrderedInv     == IsDone(st) => (OrderedCps(Result(st)) /\ EndsZero(Result(st)))
SortedInv      == \A i \in 1..(Len(st.A) - 1) : Less(st.A[i], st.A[i+1]) \/ st.A[i] = st.A[i+1]
\* the sweep's own correctness argument: at every depth boundary the finished depths are right and the
\* landscapes of the remaining working list are the deeper landscapes of the input
Residual == (st.pc = "pop" /\ ~st.fired) =>
     /\ \A k \in 1..Len(st.L) : \A t \in 0..MaxT :
           PLEquals(Strip(st.L[k]), t, KthLargestDef(input, t, k))
     /\ \A k \in 1..KMax : \A t \in 0..MaxT :
           KthLargestDef(st.A, t, k) = KthLargestDef(input, t, Len(st.L) + k)
\* the repeated-bar shortcut fires only when the working list really contained a copy of the popped bar
FiredMeansDup == st.fired => \E i, j \in 1..Len(SortBars(input)) : i # j  \* weak sanity; strengthened in traces
=============================================================================
