------------------------------ MODULE MGHCore ------------------------------
(* Modified Gromov-Hausdorff estimates between unweighted graphs (persim/gromov_hausdorff.py).
   PROPERTY LAYER : DistMatrix (shortest paths of the abstract graph), Dis, MinDis (exact, branch and bound),
                    True2 = 2 * mGH, Components / LargestComponents.
   ALGORITHM LAYER: FindLb (trivial bound, d-bounded curvature pruning with the code's sort key, Theorem A size test,
                    Theorem B row test with the greedy assignment feasibility), GreedyMap (construct_mapping).       *)
EXTENDS Integers, Sequences, FiniteSets, TLC, FiniteSetsExt, SequencesExt
Max2(a, b) == IF a >= b THEN a ELSE b
Min2(a, b) == IF a <= b THEN a ELSE b
Abs(x) == IF x >= 0 THEN x ELSE -x
BIG == 1000
N(D) == Len(D)

(* ------------------------------ property layer ------------------------------ *)
\* graph = <<n, E>> with E a set of <<i, j>> pairs (any orientation); shortest paths by n rounds of relaxation
Adjacent(E, i, j) == <<i, j>> \in E \/ <<j, i>> \in E
\* TLC's function constructors are lazy: force both levels, otherwise every access re-evaluates the previous round
Mat(n, F(_, _)) == TLCEval([i \in 1..n |-> TLCEval([j \in 1..n |-> F(i, j)])])
RECURSIVE Relax(_, _, _)
Relax(n, D, r) ==
  IF r = 0 THEN D
  ELSE Relax(n, Mat(n, LAMBDA i, j : Min({D[i][j]} \cup {D[i][k] + D[k][j] : k \in 1..n})), r - 1)
\* path lengths double with every round: 4 rounds are exact up to 16 vertices
DistMatrix(n, E) ==
  Relax(n, Mat(n, LAMBDA i, j : IF i = j THEN 0 ELSE IF Adjacent(E, i, j) THEN 1 ELSE BIG), 4)
IsConnectedD(D) == \A i, j \in 1..N(D) : D[i][j] < BIG
CompOf(D, i) == {j \in 1..N(D) : D[i][j] < BIG}
Components(D) == {CompOf(D, i) : i \in 1..N(D)}
LargestComponents(D) == {C \in Components(D) : \A C2 \in Components(D) : Cardinality(C2) <= Cardinality(C)}
SubMatrix(D, C) == LET s == SetToSortSeq(C, <) IN Mat(Len(s), LAMBDA i, j : D[s[i]][s[j]])

Dis(DX, DY, f) == Max({0} \cup {Abs(DX[i][j] - DY[f[i]][f[j]]) : i, j \in 1..N(DX)})
\* exact minimum distortion over ALL maps X -> Y: depth-first assignment with pruning on the running best
RECURSIVE MinDisRec(_, _, _, _, _)
MinDisRec(DX, DY, f, cur, best) ==
  IF cur >= best THEN best
  ELSE IF Len(f) = N(DX) THEN cur
  ELSE LET x == Len(f) + 1 IN
       LET Try[y \in 0..N(DY)] ==
             IF y = 0 THEN best
             ELSE LET b   == Try[y - 1]
                      inc == Max({0} \cup {Abs(DX[x][kk] - DY[y][f[kk]]) : kk \in 1..Len(f)})
                  IN MinDisRec(DX, DY, Append(f, y), Max2(cur, inc), b)
       IN Try[N(DY)]
MinDis(DX, DY) == MinDisRec(DX, DY, <<>>, 0, BIG)
True2(DX, DY) == Max2(MinDis(DX, DY), MinDis(DY, DX))
\* plain enumeration, used to cross-check the branch and bound in the model
MinDisEnum(DX, DY) == Min({Dis(DX, DY, f) : f \in [1..N(DX) -> 1..N(DY)]})
IsIsomorphism(DX, DY, p) == /\ Len(p) = N(DX) /\ N(DX) = N(DY) /\ {p[i] : i \in 1..Len(p)} = 1..N(DY)
                            /\ \A i, j \in 1..N(DX) : DX[i][j] = DY[p[i]][p[j]]

(* ------------------------------ algorithm layer ------------------------------ *)
Diam(D) == Max({D[i][j] : i \in 1..N(D), j \in 1..N(D)})
Sub(K, keep) == Mat(Len(keep), LAMBDA i, j : K[keep[i]][keep[j]])
NeedsPrune(K, d) == \E i, j \in 1..N(K) : i < j /\ K[i][j] < d
SortKey(K, diam, d, c) ==
  - Cardinality({r \in 1..N(K) : K[r][c] < d}) * (N(K) * diam)
  + LET S[r \in 0..N(K)] == IF r = 0 THEN 0 ELSE S[r - 1] + (IF K[r][c] >= d THEN K[r][c] ELSE 0) IN S[N(K)]
ArgMinKey(K, diam, d) ==
  LET mn == Min({SortKey(K, diam, d, c) : c \in 1..N(K)}) IN Min({c \in 1..N(K) : SortKey(K, diam, d, c) = mn})
RECURSIVE Prune(_, _, _)
Prune(K, diam, d) ==
  IF ~NeedsPrune(K, d) THEN K
  ELSE LET c == ArgMinKey(K, diam, d)
       IN Prune(Sub(K, [i \in 1..(N(K) - 1) |-> IF i < c THEN i ELSE i + 1]), diam, d)
RowDist(D, r, maxd) == [v \in 1..maxd |-> Cardinality({c \in 1..N(D) : D[r][c] = v})]
TailCnt(f, t, maxd) == LET S[v \in (t - 1)..maxd] == IF v = t - 1 THEN 0 ELSE S[v - 1] + f[v] IN S[maxd]
LessThan(a, b, maxd) == /\ \A t \in 1..maxd : TailCnt(b, t, maxd) >= TailCnt(a, t, maxd)
                        /\ \E t \in 1..maxd : TailCnt(b, t, maxd) > TailCnt(a, t, maxd)
MaxRows(K, maxd) == LET ds == {RowDist(K, r, maxd) : r \in 1..N(K)} IN {a \in ds : ~\E b \in ds : LessThan(a, b, maxd)}
None == 0
NextJ(ru, i, minj, d, maxd) ==
  LET hi == IF i + (d - 1) <= maxd THEN i + (d - 1) ELSE maxd
      c  == {j \in minj..hi : j >= 1 /\ ru[j] > 0}
  IN IF c = {} THEN None ELSE Min(c)
NextIJ(rv, ru, mini, minj, d, maxd) ==
  LET c == {i \in mini..maxd : i >= 1 /\ rv[i] > 0} IN
  IF c = {} THEN <<None, minj>>
  ELSE LET i == Min(c) IN <<i, NextJ(ru, i, Max2(i - (d - 1), minj), d, maxd)>>
RECURSIVE FeasLoop(_, _, _, _, _, _)
FeasLoop(rv, ru, i, j, d, maxd) ==
  IF i = None \/ j = None THEN j # None
  ELSE IF rv[i] <= ru[j]
       THEN LET ru2 == [ru EXCEPT ![j] = ru[j] - rv[i]]
                rv2 == [rv EXCEPT ![i] = 0]
                r   == NextIJ(rv2, ru2, i, j, d, maxd)
            IN FeasLoop(rv2, ru2, r[1], r[2], d, maxd)
       ELSE LET rv2 == [rv EXCEPT ![i] = rv[i] - ru[j]]
                ru2 == [ru EXCEPT ![j] = 0]
            IN FeasLoop(rv2, ru2, i, NextJ(ru2, i, j, d, maxd), d, maxd)
GreedyFeasible(v, u, d, maxd) ==
  LET r == NextIJ(v, u, 1, 1, d, maxd) IN IF r[1] = None THEN TRUE ELSE FeasLoop(v, u, r[1], r[2], d, maxd)
\* what the greedy routine is meant to decide: an injection k -> f(k) with |v_k - u_f(k)| < d
RECURSIVE Expand(_, _, _)
Expand(f, kk, maxd) == IF kk > maxd THEN <<>> ELSE [x \in 1..f[kk] |-> kk] \o Expand(f, kk + 1, maxd)
RECURSIVE AssignDecl(_, _, _, _, _)
AssignDecl(vs, us, a, used, d) ==
  IF a > Len(vs) THEN TRUE
  ELSE \E b \in (1..Len(us)) \ used : Abs(vs[a] - us[b]) < d /\ AssignDecl(vs, us, a + 1, used \cup {b}, d)
FeasibleDecl(v, u, d, maxd) == AssignDecl(Expand(v, 1, maxd), Expand(u, 1, maxd), 1, {}, d)

ConfirmRow(d, K, DY, maxd) ==
  \E a \in MaxRows(K, maxd) : \A j \in 1..N(DY) : ~GreedyFeasible(a, RowDist(DY, j, maxd), d, maxd)
Confirm(d, K, DY, maxd) == N(K) > N(DY) \/ ConfirmRow(d, K, DY, maxd)
\* one iteration of the lower-bound loop: returns the new lower bound
LbIter(DX, DY, d, lb) ==
  LET dx == Diam(DX) dy == Diam(DY) md == Max2(dx, dy)
      lb1 == IF d <= dx
             THEN (LET K == Prune(DX, dx, d) IN IF N(K) > 2 /\ Confirm(d, K, DY, md) THEN d ELSE lb)
             ELSE lb
      lb2 == IF d > lb1 /\ d <= dy
             THEN (LET L == Prune(DY, dy, d) IN IF N(L) > 2 /\ Confirm(d, L, DX, md) THEN d ELSE lb1)
             ELSE lb1
  IN lb2
TrivialLb(DX, DY) == Max2(Abs(Diam(DX) - Diam(DY)), IF N(DX) # N(DY) THEN 1 ELSE 0)
RECURSIVE LbLoop(_, _, _, _)
LbLoop(DX, DY, d, lb) == IF d <= lb THEN lb ELSE LbLoop(DX, DY, d - 1, LbIter(DX, DY, d, lb))
FindLb(DX, DY) == LbLoop(DX, DY, Max2(Diam(DX), Diam(DY)), TrivialLb(DX, DY))

\* construct_mapping: pi = order in which the points of X are mapped (1-based), y0 = image of the first one
RECURSIVE GreedyRec(_, _, _, _, _, _)
GreedyRec(DX, DY, pi, step, imgs, dist) ==   \* imgs[k] = image of pi[k]
  IF step > Len(pi) THEN <<imgs, dist>>
  ELSE LET x == pi[step]
           bn(y) == Max({Abs(DX[x][pi[kk]] - DY[y][imgs[kk]]) : kk \in 1..(step - 1)})
           mn == Min({bn(y) : y \in 1..N(DY)})
           y  == Min({yy \in 1..N(DY) : bn(yy) = mn})
       IN GreedyRec(DX, DY, pi, step + 1, Append(imgs, y), Max2(dist, mn))
GreedyMap(DX, DY, pi, y0) == GreedyRec(DX, DY, pi, 2, <<y0>>, 0)
\* the map X -> Y as a function of the point (not of the step)
AsMap(pi, imgs) == [x \in 1..Len(pi) |-> imgs[CHOOSE kk \in 1..Len(pi) : pi[kk] = x]]
=============================================================================
