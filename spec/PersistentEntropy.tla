------------------------------- MODULE PersistentEntropy -------------------------------
(* persim.persistent_entropy as a pipeline machine (C16): Listify, HandleInf(keep_inf, val_inf), then per diagram Lengths,
   RejectNonPositive, Shannon, Normalise.
   PROPERTY LAYER : ExpectedOutcome -- the declarative statement: an error iff (keep_inf and no substitution value) or some bar kept
   has non-positive length; otherwise one value per diagram, in order, equal to EntropyCoef * ln 2 on dyadic ("Kraft") length
   families, where EntropyCoef = sum_i k_i 2^(-k_i) for p_i = 2^(-k_i).
   Bars are <<b, d>> with d = Inf for an infinite death.  Values are carried as the rational coefficient of ln 2.             *)
EXTENDS Integers, Sequences, FiniteSets, TLC, FiniteSetsExt, SequencesExt, Json, IOUtils
CONSTANTS MaxDgms
Inf == 1000
None == -1
\* a small pool: dyadic families, equal bars, an infinite bar, a zero-length and a negative bar
Pool == << << <<0, 4>>, <<1, 3>>, <<2, 3>>, <<5, 6>> >>,          \* lengths 4,2,1,1 : p = 1/2,1/4,1/8,1/8
           << <<0, 2>>, <<3, 5>> >>,                                \* equal bars
           << <<0, 4>>, <<1, 5>>, <<0, Inf>> >>,                    \* infinite bar
           << <<1, 3>>, <<2, 2>> >>,                                \* zero-length bar
           << <<0, 2>>, <<4, 3>> >>,                                \* bar born after dying
           << <<2, 6>> >> >>                                        \* single bar
VARIABLES input, islist, keepinf, valinf, normalize, dgms, i, out, err, pc
vars == <<input, islist, keepinf, valinf, normalize, dgms, i, out, err, pc>>

Log2(n) == CHOOSE kk \in 0..10 : 2 ^ kk = n
IsPow2(n) == \E kk \in 0..10 : 2 ^ kk = n
Lens(d) == [j \in 1..Len(d) |-> d[j][2] - d[j][1]]
SumSeq(s) == LET S[j \in 0..Len(s)] == IF j = 0 THEN 0 ELSE S[j - 1] + s[j] IN S[Len(s)]
\* coefficient of ln 2 as <<num, den>> for a dyadic family (every total/length is a power of two)
Kraft(ls) == LET T == SumSeq(ls) IN \A j \in 1..Len(ls) : ls[j] > 0 /\ T % ls[j] = 0 /\ IsPow2(T \div ls[j])
CoefDef(ls) == LET T == SumSeq(ls) IN <<SumSeq([j \in 1..Len(ls) |-> Log2(T \div ls[j]) * ls[j]]), T>>

(* ------------------------------ property layer ------------------------------ *)
KeptDef(d, ki, vi) == IF ~ki THEN SelectSeq(d, LAMBDA bar : bar[2] # Inf)
                      ELSE [j \in 1..Len(d) |-> <<d[j][1], IF d[j][2] = Inf THEN vi ELSE d[j][2]>>]
ExpectedOutcome(ds, ki, vi, nz) ==
  IF ki /\ vi = None THEN "error"
  ELSE IF \E q \in 1..Len(ds) : \E j \in 1..Len(KeptDef(ds[q], ki, vi)) : Lens(KeptDef(ds[q], ki, vi))[j] <= 0 THEN "error"
  ELSE [q \in 1..Len(ds) |-> LET ls == Lens(KeptDef(ds[q], ki, vi)) IN
          IF ~Kraft(ls) THEN <<-1, 1>>                                         \* not decided exactly in this model
          ELSE IF nz THEN (IF IsPow2(Len(ls)) /\ Len(ls) > 1 THEN <<CoefDef(ls)[1], CoefDef(ls)[2] * Log2(Len(ls))>> ELSE <<-1, 1>>)
          ELSE CoefDef(ls)]

(* ------------------------------ algorithm layer ------------------------------ *)
Init == /\ input \in UNION {[1..n -> 1..Len(Pool)] : n \in 1..MaxDgms}
        /\ islist \in BOOLEAN /\ (Len(input) > 1 => islist)
        /\ keepinf \in BOOLEAN /\ valinf \in {None, 7} /\ normalize \in BOOLEAN
        /\ dgms = <<>> /\ i = 1 /\ out = <<>> /\ err = FALSE /\ pc = "listify"
Listify == pc = "listify" /\ dgms' = [q \in 1..Len(input) |-> Pool[input[q]]] /\ pc' = "inf"
           /\ UNCHANGED <<input, islist, keepinf, valinf, normalize, i, out, err>>
HandleInf == /\ pc = "inf"
             /\ IF ~keepinf THEN dgms' = [q \in 1..Len(dgms) |-> SelectSeq(dgms[q], LAMBDA bar : bar[2] # Inf)] /\ err' = FALSE /\ pc' = "loop"
                ELSE IF valinf # None
                     THEN dgms' = [q \in 1..Len(dgms) |-> [j \in 1..Len(dgms[q]) |-> <<dgms[q][j][1], IF dgms[q][j][2] = Inf THEN valinf ELSE dgms[q][j][2]>>]]
                          /\ err' = FALSE /\ pc' = "loop"
                     ELSE dgms' = dgms /\ err' = TRUE /\ pc' = "done"
             /\ UNCHANGED <<input, islist, keepinf, valinf, normalize, i, out>>
OneDiagram == /\ pc = "loop" /\ i <= Len(dgms)
              /\ LET ls == Lens(dgms[i]) IN
                 IF \A j \in 1..Len(ls) : ls[j] > 0
                 THEN /\ out' = Append(out, IF ~Kraft(ls) THEN <<-1, 1>>
                                            ELSE IF normalize THEN (IF IsPow2(Len(ls)) /\ Len(ls) > 1 THEN <<CoefDef(ls)[1], CoefDef(ls)[2] * Log2(Len(ls))>> ELSE <<-1, 1>>)
                                            ELSE CoefDef(ls))
                      /\ i' = i + 1 /\ UNCHANGED <<err, pc>>
                 ELSE err' = TRUE /\ pc' = "done" /\ UNCHANGED <<out, i>>
              /\ UNCHANGED <<input, islist, keepinf, valinf, normalize, dgms>>
Finish == pc = "loop" /\ i > Len(dgms) /\ pc' = "done" /\ UNCHANGED <<input, islist, keepinf, valinf, normalize, dgms, i, out, err>>
Next == Listify \/ HandleInf \/ OneDiagram \/ Finish
Spec == Init /\ [][Next]_vars
\* liveness: every call returns or raises; the caller's input is never written (C19 at the level of this routine)
FairSpec == Spec /\ WF_vars(Next)
Termination == <>(pc = "done")
InputUntouched == [][input' = input]_vars

OutcomeAsStated == pc = "done" =>
    LET ex == ExpectedOutcome([q \in 1..Len(input) |-> Pool[input[q]]], keepinf, valinf, normalize)
    IN IF err THEN ex = "error" ELSE ex = out
\* properties of the definition itself on dyadic families: 0 <= E <= log2 n, with equality iff all bars are equal
CoefBounds == \A q \in 1..Len(Pool) :
    LET ls == Lens(SelectSeq(Pool[q], LAMBDA bar : bar[2] # Inf)) IN
    (Kraft(ls) /\ IsPow2(Len(ls))) =>
        /\ CoefDef(ls)[1] >= 0 /\ CoefDef(ls)[1] <= Log2(Len(ls)) * CoefDef(ls)[2]
        /\ (CoefDef(ls)[1] = Log2(Len(ls)) * CoefDef(ls)[2]) = (\A a, b \in 1..Len(ls) : ls[a] = ls[b])
\* spec -> code: every (input, flags) combination with the expected outcome
DumpInit == /\ JsonSerialize(IOEnv.DUMP_FILE, SetToSeq({[input |-> inp, keepinf |-> ki, valinf |-> vi, normalize |-> nz,
                                 expected |-> ExpectedOutcome([q \in 1..Len(inp) |-> Pool[inp[q]]], ki, vi, nz)] :
                                 inp \in UNION {[1..n -> 1..Len(Pool)] : n \in 1..MaxDgms}, ki \in BOOLEAN, vi \in {None, 7}, nz \in BOOLEAN}))
            /\ input = <<1>> /\ islist = TRUE /\ keepinf = FALSE /\ valinf = None /\ normalize = FALSE
            /\ dgms = <<>> /\ i = 1 /\ out = <<>> /\ err = FALSE /\ pc = "dump"
PoolDump == JsonSerialize(IOEnv.POOL_FILE, Pool)
=============================================================================
