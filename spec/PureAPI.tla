------------------------------- MODULE PureAPI -------------------------------
(* The public API as a memo machine (C19): results are functions of the VALUE of the arguments (and of the NumPy seed for the
   one randomised routine) -- not of the container they arrive in, not of earlier calls -- and no call changes its arguments.
   Entry points and argument variants are abstract identifiers; the harness maps them onto persim's real functions.
   The model includes the two ways an implementation can be impure (ImpureMutates, ImpureHistory) behind a constant, so TLC shows
   that the invariants used on recorded traces do refute them (sensitivity of the specification itself).                     *)
EXTENDS Integers, Sequences, FiniteSets, TLC, Json, IOUtils, SequencesExt
CONSTANTS NFns, NVariants, MaxLen, AllowImpure
Fns == 1..NFns
Variants == 1..NVariants                \* container forms of the same values (float array, integer array, nested lists, ...)
VARIABLES hist,       \* calls so far: <<fn, variant>>
          args,       \* abstract byte image of the shared argument pool (0 = pristine)
          memo,       \* fn -> result observed (0 = not called yet)
          lastRes, ncalls
vars == <<hist, args, memo, lastRes, ncalls>>
\* the pure result of fn on the pristine pool: any function of fn alone (variant must not matter)
PureRes(f) == 100 + f
Init == hist = <<>> /\ args = 0 /\ memo = [f \in Fns |-> 0] /\ lastRes = 0 /\ ncalls = 0
Call(f, v) == /\ hist' = Append(hist, <<f, v>>) /\ ncalls' = ncalls + 1
              /\ lastRes' = PureRes(f) + args          \* what a function computes depends on the pool's CURRENT bytes
              /\ memo' = [memo EXCEPT ![f] = IF memo[f] = 0 THEN PureRes(f) + args ELSE memo[f]]
              /\ UNCHANGED args
ImpureMutates(f, v) == /\ AllowImpure /\ hist' = Append(hist, <<f, v>>) /\ ncalls' = ncalls + 1
                       /\ lastRes' = PureRes(f) + args /\ args' = args + 1
                       /\ memo' = [memo EXCEPT ![f] = IF memo[f] = 0 THEN PureRes(f) + args ELSE memo[f]]
ImpureHistory(f, v) == /\ AllowImpure /\ hist' = Append(hist, <<f, v>>) /\ ncalls' = ncalls + 1
                       /\ lastRes' = PureRes(f) + ncalls /\ UNCHANGED args
                       /\ memo' = [memo EXCEPT ![f] = IF memo[f] = 0 THEN PureRes(f) + ncalls ELSE memo[f]]
Next == ncalls < MaxLen /\ \E f \in Fns, v \in Variants : Call(f, v) \/ ImpureMutates(f, v) \/ ImpureHistory(f, v)
Spec == Init /\ [][Next]_vars
ArgsNeverChange == [][args' = args]_vars
Repeatable == ncalls > 0 => lastRes = memo[hist[Len(hist)][1]]
\* spec -> code: every sequence f ; g ; f  (and, in simulation mode, random longer sequences printed from a constraint)
DumpInit == /\ JsonSerialize(IOEnv.DUMP_FILE, SetToSeq({<< <<f, v>>, <<g, 1 + ((f + g) % NVariants)>>, <<f, ((v % NVariants) + 1)>> >> : f \in Fns, g \in Fns, v \in Variants}))     \* (the variant of the interleaved call g rotates with f + g)
            /\ hist = <<>> /\ args = 0 /\ memo = [f \in Fns |-> 0] /\ lastRes = 0 /\ ncalls = 0
PrintFull == ncalls < MaxLen \/ PrintT(<<"H", hist>>)
DumpNext == UNCHANGED vars        \* the dump run only needs the initial states: nothing is explored after them
=============================================================================
