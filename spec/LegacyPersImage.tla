------------------------------ MODULE LegacyPersImage ------------------------------
(* The deprecated PersImage transformer (persim/images.py), growth beyond the listed properties.  Reported as notes of C11 only.
   State: specs = <<maxBD, minBD>> or None.  Transform learns specs from its FIRST input when none were given and then keeps them
   (action SpecsStick -- a history dependence of the same kind as the landscaper's pre-repair fit, modelled as what the code does).
   Image (before the final transpose / flip): pixel (i, j), i < nx, j < ny =
        sum over points (b, p = d - b) of  (p / maxy) * [Phi((xu_i - b)/sp) - Phi((xl_i - b)/sp)] * [Phi((yu_j - p)/sp) - Phi((yl_j - p)/sp)]
   with xl = linspace(min(minBD,0), maxBD, nx), xu = xl + dx, yl = linspace(0, maxBD, ny), yu = yl + dx, dx = maxBD/ny, sp = spread or dx,
   maxy = largest persistence of that diagram.  Decided on configurations where every (edge - coordinate)/sp is a multiple of 1/8.
   case : nx, ny, hasspecs, maxBD, minBD (ticks; as given by the user), sp (spread in ticks; 0 = default dx),
          calls = [[dgm, img]] in order, dgm = [[b, d]], img = nx x ny matrix of Fix values already un-transposed / un-flipped            *)
EXTENDS Tables, FiniteSets, TLC, FiniteSetsExt, SequencesExt, Json, IOUtils, TLCExt
Cases == JsonDeserialize(IOEnv.TRACE_FILE)
VARIABLE k
PhiExt(t) == IF t < -80 THEN FZero ELSE IF t > 80 THEN FInt(1) ELSE PhiTab(t)
Max2(a, b) == IF a >= b THEN a ELSE b
Min2(a, b) == IF a <= b THEN a ELSE b
BP(d) == [i \in 1..Len(d) |-> <<d[i][1], d[i][2] - d[i][1]>>]
Learn(d) == LET pts == BP(d) IN <<Max({0} \cup {pts[i][1] : i \in 1..Len(pts)} \cup {pts[i][2] : i \in 1..Len(pts)}),
                                  Min({0} \cup {pts[i][1] : i \in 1..Len(pts)} \cup {pts[i][2] : i \in 1..Len(pts)})>>
\* grid edges; defined only when the spacing is integral
XLo(sp, nx, i) == LET lo == Min2(sp[2], 0) IN lo + (i * (sp[1] - lo)) \div (nx - 1)
YLo(sp, ny, j) == (j * sp[1]) \div (ny - 1)
Dx(sp, ny) == sp[1] \div ny
Decidable(c, sp, d) ==
  LET dx == Dx(sp, c.ny) s == IF c.sp = 0 THEN dx ELSE c.sp  lo == Min2(sp[2], 0) IN
  /\ sp[1] > 0 /\ sp[1] % c.ny = 0 /\ s > 0 /\ c.nx > 1 /\ c.ny > 1
  /\ \A i \in 0..(c.nx - 1) : (i * (sp[1] - lo)) % (c.nx - 1) = 0
  /\ \A j \in 0..(c.ny - 1) : (j * sp[1]) % (c.ny - 1) = 0
  /\ \A q \in 1..Len(d) : \A i \in 0..(c.nx - 1) : (8 * (XLo(sp, c.nx, i) - d[q][1])) % s = 0 /\ (8 * dx) % s = 0
  /\ \A q \in 1..Len(d) : \A j \in 0..(c.ny - 1) : (8 * (YLo(sp, c.ny, j) - (d[q][2] - d[q][1]))) % s = 0
Expected(c, sp, d, i, j) ==
  LET pts == BP(d) dx == Dx(sp, c.ny) s == IF c.sp = 0 THEN dx ELSE c.sp
      maxy == Max({pts[q][2] : q \in 1..Len(pts)})
      xl == XLo(sp, c.nx, i) yl == YLo(sp, c.ny, j)
      term(q) == FDivInt(FMulInt(FMul(FSub(PhiExt((8 * (xl + dx - pts[q][1])) \div s), PhiExt((8 * (xl - pts[q][1])) \div s)),
                                      FSub(PhiExt((8 * (yl + dx - pts[q][2])) \div s), PhiExt((8 * (yl - pts[q][2])) \div s))), pts[q][2]), maxy)
      RECURSIVE Acc(_)
      Acc(q) == IF q > Len(pts) THEN FZero ELSE FAdd(term(q), Acc(q + 1))
  IN Acc(1)
RECURSIVE Walk(_, _, _)
Walk(c, n, specs) ==    \* specs = <<>> means None
  IF n > Len(c.calls) THEN <<"ok", 0, "">>
  ELSE LET d == c.calls[n][1] img == c.calls[n][2]
           sp == IF specs = <<>> THEN Learn(d) ELSE specs            \* SpecsStick: learned once, kept afterwards
       IN IF Len(d) = 0 THEN Walk(c, n + 1, specs)
          ELSE IF ~Decidable(c, sp, d) THEN Walk(c, n + 1, sp)
          ELSE IF \E i \in 0..(c.nx - 1), j \in 0..(c.ny - 1) : ~FCloseRel(img[i + 1][j + 1], Expected(c, sp, d, i, j), E12, E9)
               THEN <<"differs", n, "pixel-differs-from-legacy-formula">>
          ELSE Walk(c, n + 1, sp)
Verdict(c) == Walk(c, 1, IF c.hasspecs = 1 THEN <<c.maxBD, c.minBD>> ELSE <<>>)
TInit == k = 1
TNext == /\ k <= Len(Cases)
         /\ PrintT(<<"V", k>> \o Verdict(Cases[k]))
         /\ k' = k + 1
AllConsumed == TLCGet("stats").diameter = Len(Cases) + 1
=============================================================================
