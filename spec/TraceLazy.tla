------------------------------- MODULE TraceLazy -------------------------------
(* Batch validation of recorded histories of LazyLandscape.tla: every history is run twice on the real classes -- on lazily built
   objects (compute=False) and on eagerly built twins -- and each step records a digest of the result by VALUE and whether it raised.
   case : klass ("exact" | "approx"), lazy = [lazyP, lazyQ], events = [[op, x, y, digest_lazy, raised_lazy, digest_eager, raised_eager,
          operands_lazy_after, operands_eager_after]]  (the last two: digests of the contents of P and Q after the step)
   Verdict: the lazy run is indistinguishable from the eager run at every step (result and both operands).                        *)
EXTENDS Integers, Sequences, TLC, Json, IOUtils, TLCExt
Cases == JsonDeserialize(IOEnv.TRACE_FILE)
VARIABLE k
RECURSIVE Walk(_, _)
Walk(c, i) ==
  IF i > Len(c.events) THEN <<"ok", 0, "">>
  ELSE LET e == c.events[i] IN
       IF e[5] # e[7] THEN <<"fail", i, IF e[5] = 1 THEN "valid-operation-raised-on-lazily-built-operand" ELSE "lazy-run-did-not-raise-like-the-eager-run">>
       ELSE IF e[4] # e[6] THEN <<"fail", i, "result-differs-for-lazily-built-operand">>
       ELSE IF e[8] # e[9] THEN <<"fail", i, "operand-content-differs-after-operation">>
       ELSE Walk(c, i + 1)
Verdict(c) == Walk(c, 1)
TInit == k = 1
TNext == /\ k <= Len(Cases)
         /\ PrintT(<<"V", k>> \o Verdict(Cases[k]))
         /\ k' = k + 1
AllConsumed == TLCGet("stats").diameter = Len(Cases) + 1
=============================================================================
