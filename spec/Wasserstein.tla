---------------------------- MODULE Wasserstein ----------------------------
(* persim.wasserstein as a state machine.  The design theorem checked here is independent of the particular
   cost rule: for ANY non-negative pairing costs cpp and diagonal costs cd that satisfy the geometric
   inequality  cd(q) <= cpp(p,q) + cd(p)  (the diagonal is a closed set), the minimum over perfect matchings of the
   augmented (M+N)x(M+N) matrix built by the code -- with empty diagrams replaced by a zero-cost diagonal placeholder --
   equals the minimum over partial pairings (the property's definition), and ANY optimal assignment the solver may
   return yields rows that certify the value (C06).  The concrete cost rule (Euclidean / perpendicular) is checked on
   recorded executions in TraceWasserstein.tla.                                                                     *)
EXTENDS Integers, Sequences, FiniteSets, TLC, FiniteSetsExt, SequencesExt
CONSTANTS MaxS, MaxT, MaxC
INF == 1000000
Sum(f, n) == LET S[i \in 0..n] == IF i = 0 THEN 0 ELSE S[i - 1] + f[i] IN S[n]

VARIABLES m, n,        \* numbers of finite points
          cpp, cdS, cdT, \* cost tables on the PADDED diagrams (size pm x pn, pm, pn)
          D, assign, dist, rows, pc
vars == <<m, n, cpp, cdS, cdT, D, assign, dist, rows, pc>>
Pm(k) == IF k = 0 THEN 1 ELSE k

P1 == Permutations(1..1)
P2 == Permutations(1..2)
P3 == Permutations(1..3)
P4 == Permutations(1..4)
P5 == Permutations(1..5)
P6 == Permutations(1..6)
Perms(k) == CASE k = 1 -> P1 [] k = 2 -> P2 [] k = 3 -> P3 [] k = 4 -> P4 [] k = 5 -> P5 [] k = 6 -> P6

(* ------------------------------ property layer ------------------------------ *)
AllInjs(a, b) == {f \in [1..a -> 0..b] : \A i, j \in 1..a : (i # j /\ f[i] # 0) => f[i] # f[j]}
PairingSum(f) ==   \* on the UNPADDED diagrams (m, n)
  Sum([i \in 1..m |-> IF f[i] = 0 THEN cdS[i] ELSE cpp[i][f[i]]], m)
  + Sum([j \in 1..n |-> IF \E i \in 1..m : f[i] = j THEN 0 ELSE cdT[j]], n)
WassersteinDef == Min({PairingSum(f) : f \in AllInjs(m, n)})

(* ------------------------------ algorithm layer ------------------------------ *)
Matrix == LET M == Pm(m) N == Pm(n) IN
  [i \in 1..(M + N) |-> [j \in 1..(M + N) |->
      IF i <= M /\ j <= N THEN cpp[i][j]
      ELSE IF i <= M THEN (IF j - N = i THEN cdS[i] ELSE INF)
      ELSE IF j <= N THEN (IF i - M = j THEN cdT[j] ELSE INF)
      ELSE 0]]
Cost(DD, f) == Sum([i \in 1..Len(DD) |-> DD[i][f[i]]], Len(DD))
MinCost(DD) == Min({Cost(DD, f) : f \in Perms(Len(DD))})

Init == /\ m \in 0..MaxS /\ n \in 0..MaxT
        /\ cpp \in [1..Pm(m) -> [1..Pm(n) -> 0..MaxC]]
        /\ cdS \in [1..Pm(m) -> 0..MaxC] /\ cdT \in [1..Pm(n) -> 0..MaxC]
        /\ (m = 0 => cdS[1] = 0) /\ (n = 0 => cdT[1] = 0)            \* the placeholder lies on the diagonal
        /\ \A i \in 1..Pm(m), j \in 1..Pm(n) : cdT[j] <= cpp[i][j] + cdS[i] /\ cdS[i] <= cpp[i][j] + cdT[j]
        /\ D = <<>> /\ assign = <<>> /\ dist = -1 /\ rows = <<>> /\ pc = "matrix"
BuildMatrix == pc = "matrix" /\ D' = Matrix /\ pc' = "assign" /\ UNCHANGED <<m, n, cpp, cdS, cdT, assign, dist, rows>>
\* linear_sum_assignment: ANY minimum-cost perfect matching (tie-breaking unspecified)
Assign == /\ pc = "assign"
          /\ assign' \in {f \in Perms(Len(D)) : Cost(D, f) = MinCost(D)}
          /\ dist' = MinCost(D)
          /\ pc' = "extract" /\ UNCHANGED <<m, n, cpp, cdS, cdT, D, rows>>
RowOf(i) == LET M == Pm(m) N == Pm(n) j == assign[i] IN
            <<IF i > M THEN -1 ELSE i - 1, IF j > N THEN -1 ELSE j - 1, D[i][j]>>
Extract == /\ pc = "extract"
           /\ LET keep == SelectSeq([i \in 1..Len(D) |-> i], LAMBDA i : ~(i > Pm(m) /\ assign[i] > Pm(n)))
              IN rows' = [r \in 1..Len(keep) |-> RowOf(keep[r])]
           /\ pc' = "done" /\ UNCHANGED <<m, n, cpp, cdS, cdT, D, assign, dist>>
Next == BuildMatrix \/ Assign \/ Extract
Spec == Init /\ [][Next]_vars
FairSpec == Spec /\ WF_vars(Next)
Termination == <>(pc = "done")

Optimal == pc = "done" => dist = WassersteinDef      \* AugmentedEqualsPartial
CertifiesInv == pc = "done" =>
     /\ \A i \in 0..(Pm(m) - 1) : Cardinality({r \in 1..Len(rows) : rows[r][1] = i}) = 1
     /\ \A j \in 0..(Pm(n) - 1) : Cardinality({r \in 1..Len(rows) : rows[r][2] = j}) = 1
     /\ \A r \in 1..Len(rows) :
           /\ ~(rows[r][1] = -1 /\ rows[r][2] = -1)
           /\ rows[r][3] = (IF rows[r][2] = -1 THEN cdS[rows[r][1] + 1]
                            ELSE IF rows[r][1] = -1 THEN cdT[rows[r][2] + 1]
                            ELSE cpp[rows[r][1] + 1][rows[r][2] + 1])
     /\ Sum([r \in 1..Len(rows) |-> rows[r][3]], Len(rows)) = dist
=============================================================================
