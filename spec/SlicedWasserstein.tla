------------------------------- MODULE SlicedWasserstein -------------------------------
(* Design lemma behind the sliced Wasserstein distance (C15): in one dimension the transport cost between two multisets of
   equal size is attained by matching the sorted sequences -- sum_i |sort(U)_i - sort(V)_i| = min over all bijections of
   sum_i |U_i - V_pi(i)| -- checked by TLC for all pairs of sequences within the constants; plus the two facts that make the
   distance well defined on diagrams: adding the same value to both sides does not change the cost (diagonal points of one
   diagram are paired with their own projections), and the cost is symmetric.                                            *)
EXTENDS Integers, Sequences, FiniteSets, TLC, FiniteSetsExt, SequencesExt
CONSTANTS MaxN, MaxV
AbsI(x) == IF x < 0 THEN -x ELSE x
Sum(f, n) == LET S[i \in 0..n] == IF i = 0 THEN 0 ELSE S[i - 1] + f[i] IN S[n]
SortedCost(U, V) == LET a == SortSeq(U, <) b == SortSeq(V, <) IN Sum([i \in 1..Len(a) |-> AbsI(a[i] - b[i])], Len(a))
P1 == Permutations(1..1)
P2 == Permutations(1..2)
P3 == Permutations(1..3)
P4 == Permutations(1..4)
P5 == Permutations(1..5)
Perms(n) == CASE n = 1 -> P1 [] n = 2 -> P2 [] n = 3 -> P3 [] n = 4 -> P4 [] n = 5 -> P5
TransportDef(U, V) == Min({Sum([i \in 1..Len(U) |-> AbsI(U[i] - V[pi[i]])], Len(U)) : pi \in Perms(Len(U))})
VARIABLES U, V
Init == \E n \in 1..MaxN : U \in [1..n -> 0..MaxV] /\ V \in [1..n -> 0..MaxV]
Next == UNCHANGED <<U, V>>
Spec == Init /\ [][Next]_<<U, V>>
SortedIsOptimal == SortedCost(U, V) = TransportDef(U, V)
CommonValueIrrelevant == \A x \in 0..MaxV : SortedCost(Append(U, x), Append(V, x)) = SortedCost(U, V)
CostSymmetric == SortedCost(U, V) = SortedCost(V, U)
=============================================================================
