---------------------------- MODULE TraceWasserstein ----------------------------
(* Batch validation of recorded persim.wasserstein executions (C02, C06).
   Coordinates in ticks.  All real-valued quantities are Fix records in tick units.
   Case fields:
     S, T   : [[b, d, fin]] ;  pad : tick coordinate of the float 0.0
     cpp    : claimed sqrt table for the PADDED diagrams, cpp[i][j] ~ sqrt(Q/2), Q = 2*(db^2 + dd^2)   (Euclidean)
     cdS,cdT: claimed sqrt((d-b)^2/2) = perpendicular distance to the diagonal
              -- claims by the harness (integer isqrt); each is VERIFIED here by squaring.
     dist, distm, rows, hasrows, warn : observations ;  tol : "e12" (exact embedding) | "e9"
     brute  : 1 => decide optimality by brute force over all partial pairings
     dual   : 1 => LP-duality certificate: pm (optimal perfect matching of the augmented problem, 1-based),
              u, v (Fix potentials) ; checked: u_i + v_j <= c_ij + eps for all finite c_ij, sum(u)+sum(v) >= cost(pm) - eps *)
EXTENDS Fix, FiniteSets, TLC, FiniteSetsExt, SequencesExt, Json, IOUtils, TLCExt
Cases == JsonDeserialize(IOEnv.TRACE_FILE)
VARIABLE k

Pts(L) == LET f == SelectSeq(L, LAMBDA p : p[3] = 1) IN [i \in 1..Len(f) |-> <<f[i][1], f[i][2]>>]
PadP(X, pad) == IF X = <<>> THEN << <<pad, pad>> >> ELSE X
Half == [s |-> 1, m |-> <<0, 0, 0, 5000>>]
QPair(p, q) == 2 * ((p[1] - q[1]) * (p[1] - q[1]) + (p[2] - q[2]) * (p[2] - q[2]))
QDiag(p) == (p[2] - p[1]) * (p[2] - p[1])
\* c is sqrt(Q/2) to within 1e-15
IsSqrtHalf(c, Q) ==
  LET target == FMulInt(Half, Q)
      lo == FSub(c, E15) hi == FAdd(c, E15)
  IN /\ c.s = 1
     /\ (FLeq(lo, FZero) \/ FLeq(FMul(lo, lo), target))
     /\ FLeq(target, FAdd(FMul(hi, hi), E15))
TablesOK(c, PX, PY) ==
  /\ Len(c.cpp) = Len(PX) /\ \A i \in 1..Len(PX) : Len(c.cpp[i]) = Len(PY)
  /\ \A i \in 1..Len(PX), j \in 1..Len(PY) : IsSqrtHalf(c.cpp[i][j], QPair(PX[i], PY[j]))
  /\ \A i \in 1..Len(PX) : IsSqrtHalf(c.cdS[i], QDiag(PX[i]))
  /\ \A j \in 1..Len(PY) : IsSqrtHalf(c.cdT[j], QDiag(PY[j]))

AllInjs(a, b) == {f \in [1..a -> 0..b] : \A i, j \in 1..a : (i # j /\ f[i] # 0) => f[i] # f[j]}
\* the definition, on the unpadded finite diagrams (m, n may be 0)
PairingSum(c, m, n, f) ==
  FAdd(FSum([i \in 1..m |-> IF f[i] = 0 THEN c.cdS[i] ELSE c.cpp[i][f[i]]]),
       FSum([j \in 1..n |-> IF \E i \in 1..m : f[i] = j THEN FZero ELSE c.cdT[j]]))
RECURSIVE FMinSet(_)
FMinSet(S) == LET x == CHOOSE x \in S : TRUE IN IF Cardinality(S) = 1 THEN x ELSE FMin(x, FMinSet(S \ {x}))
WassersteinDef(c, m, n) == FMinSet({PairingSum(c, m, n, f) : f \in AllInjs(m, n)})

AbsTol(c) == IF c.tol = "e12" THEN E12 ELSE E9
RelTol(c) == IF c.tol = "e12" THEN E12 ELSE E9
Close(c, x, y) == FCloseRel(x, y, AbsTol(c), RelTol(c))

\* augmented cost entry on the unpadded problem; "inf" encoded by the flag
AugFinite(m, n, i, j) == (i <= m /\ j <= n) \/ (i <= m /\ j - n = i) \/ (i > m /\ j <= n /\ i - m = j) \/ (i > m /\ j > n)
AugCost(c, m, n, i, j) == IF i <= m /\ j <= n THEN c.cpp[i][j]
                          ELSE IF i <= m THEN c.cdS[i]
                          ELSE IF j <= n THEN c.cdT[j] ELSE FZero
IsPerm(f, nn) == Len(f) = nn /\ {f[i] : i \in 1..nn} = 1..nn
DualOK(c, m, n) ==
  LET nn == m + n IN
  /\ IsPerm(c.pm, nn) /\ \A i \in 1..nn : AugFinite(m, n, i, c.pm[i])
  /\ Len(c.u) = nn /\ Len(c.v) = nn
  /\ \A i, j \in 1..nn : AugFinite(m, n, i, j) => FLeq(FAdd(c.u[i], c.v[j]), FAdd(AugCost(c, m, n, i, j), E12))
  /\ FLeq(FSum([i \in 1..nn |-> AugCost(c, m, n, i, c.pm[i])]), FAdd(FAdd(FSum(c.u), FSum(c.v)), E9))
DualValue(c, m, n) == FSum([i \in 1..(m + n) |-> AugCost(c, m, n, i, c.pm[i])])

RowCost(c, r) == IF r[2] = -1 THEN c.cdS[r[1] + 1] ELSE IF r[1] = -1 THEN c.cdT[r[2] + 1] ELSE c.cpp[r[1] + 1][r[2] + 1]
Certifies(c, PX, PY) ==
     /\ \A i \in 0..(Len(PX) - 1) : Cardinality({r \in 1..Len(c.rows) : c.rows[r][1] = i}) = 1
     /\ \A j \in 0..(Len(PY) - 1) : Cardinality({r \in 1..Len(c.rows) : c.rows[r][2] = j}) = 1
     /\ \A r \in 1..Len(c.rows) :
           /\ c.rows[r][1] \in -1..(Len(PX) - 1) /\ c.rows[r][2] \in -1..(Len(PY) - 1)
           /\ ~(c.rows[r][1] = -1 /\ c.rows[r][2] = -1)
           /\ Close(c, c.rows[r][3], RowCost(c, c.rows[r]))
     /\ Close(c, FSum([r \in 1..Len(c.rows) |-> c.rows[r][3]]), c.distm)

Verdict(c) ==
  LET X == Pts(c.S) Y == Pts(c.T)
      PX == PadP(X, c.pad) PY == PadP(Y, c.pad)
      m == Len(X) n == Len(Y)
      dropped1 == \E i \in 1..Len(c.S) : c.S[i][3] = 0
      dropped2 == \E i \in 1..Len(c.T) : c.T[i][3] = 0
  IN IF ~TablesOK(c, PX, PY) THEN <<"machinery", "bad-sqrt-table">>
     ELSE IF c.dual = 1 /\ ~DualOK(c, m, n) THEN <<"machinery", "bad-dual-certificate">>
     ELSE IF c.dual = 1 /\ c.brute = 1 /\ ~FCloseRel(DualValue(c, m, n), WassersteinDef(c, m, n), E9, E9) THEN <<"machinery", "dual-vs-definition">>
     ELSE IF c.finite = 0 THEN <<"fail", "C02-value-not-finite">>
     ELSE IF c.mine # "C06" /\ c.brute = 1 /\ ~Close(c, c.dist, WassersteinDef(c, m, n)) THEN <<"fail", "C02-not-optimal">>
     ELSE IF c.mine # "C06" /\ c.dual = 1 /\ ~FCloseRel(c.dist, DualValue(c, m, n), E9, E9) THEN <<"fail", "C02-not-optimal-dual">>
     ELSE IF c.mine # "C06" /\ ((dropped1 /\ c.warn[1] = 0) \/ (dropped2 /\ c.warn[2] = 0)) THEN <<"fail", "C02-dropped-without-warning">>
     ELSE IF c.hasrows = 1 /\ ~Close(c, c.distm, c.dist) THEN <<"fail", "C06-distance-differs-with-matching">>
     ELSE IF c.hasrows = 1 /\ ~Certifies(c, PX, PY) THEN <<"fail", "C06-not-a-certificate">>
     ELSE <<"ok", "">>

TInit == k = 1
TNext == /\ k <= Len(Cases)
         /\ PrintT(<<"V", k>> \o Verdict(Cases[k]))
         /\ k' = k + 1
AllConsumed == TLCGet("stats").diameter = Len(Cases) + 1
=============================================================================
