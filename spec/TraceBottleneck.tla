---------------------------- MODULE TraceBottleneck ----------------------------
(* Batch validation of recorded persim.bottleneck executions (C01, C06).  One TLC step per case.
   Case fields (small ints; coordinates in ticks, costs in 1/q HALF ticks):
     S, T     : [[b, d, fin]]  (fin = 0: infinite death)
     q, lattice, dist, distm   : observed distances (matching=False / True) ; lattice=0 if not decodable
     hasrows, rows             : observed matching rows [[i, j, c]]
     warn     : [w1, w2] observed "non-finite death" warnings
     brute    : 1 => also decide by brute force over all partial pairings (small sizes)
     hopt, pm, hallX           : certificate computed by the harness' own solver:
                                 pm  = perfect matching (1-based permutation of the augmented index set) with all
                                       definitional costs <= hopt ;
                                 hallX = set of augmented rows with fewer than |hallX| neighbours at threshold hopt-1
                                       (empty when hopt = 0).  Validity is decided HERE, not by the harness.
     pad      : tick coordinate of the float 0.0 (the empty-diagram placeholder is the float point (0,0))
     mine     : "C01" | "C06" -- the property whose clauses are evaluated first (C06 skips the optimality / warning clauses)
     probes   : hook events [[n_ds, idx, perfect]] ; hook = 0 when absent                                    *)
EXTENDS Integers, Sequences, FiniteSets, TLC, FiniteSetsExt, SequencesExt, Json, IOUtils, TLCExt
Cases == JsonDeserialize(IOEnv.TRACE_FILE)
VARIABLE k

Abs(x) == IF x >= 0 THEN x ELSE -x
(* ---- property layer: the definition's own cost rules (half ticks) ---- *)
CostPPDef(p, q) == LET a == Abs(p[1] - q[1]) b == Abs(p[2] - q[2]) IN 2 * (IF a >= b THEN a ELSE b)
CostDiagDef(p) == p[2] - p[1]
INF == 1000000
Pts(L) == LET f == SelectSeq(L, LAMBDA p : p[3] = 1) IN [i \in 1..Len(f) |-> <<f[i][1], f[i][2]>>]
\* augmented definitional matrix entry: rows = X then diagonal slots of Y ; columns = Y then diagonal slots of X
DDef(X, Y, i, j) ==
  LET m == Len(X) n == Len(Y) IN
  IF i <= m /\ j <= n THEN CostPPDef(X[i], Y[j])
  ELSE IF i <= m THEN (IF j - n = i THEN CostDiagDef(X[i]) ELSE INF)
  ELSE IF j <= n THEN (IF i - m = j THEN CostDiagDef(Y[j]) ELSE INF)
  ELSE 0
AllInjs(m, n) == {f \in [1..m -> 0..n] : \A i, j \in 1..m : (i # j /\ f[i] # 0) => f[i] # f[j]}
PairingCost(X, Y, f) ==
  Max({0} \cup {IF f[i] = 0 THEN CostDiagDef(X[i]) ELSE CostPPDef(X[i], Y[f[i]]) : i \in 1..Len(X)}
          \cup {CostDiagDef(Y[j]) : j \in {j \in 1..Len(Y) : \A i \in 1..Len(X) : f[i] # j}})
BottleneckDef(X, Y) == Min({PairingCost(X, Y, f) : f \in AllInjs(Len(X), Len(Y))})

IsPerm(f, n) == Len(f) = n /\ {f[i] : i \in 1..n} = 1..n
PmValid(X, Y, pm, h) == LET n == Len(X) + Len(Y) IN IsPerm(pm, n) /\ \A i \in 1..n : DDef(X, Y, i, pm[i]) <= h
HallValid(X, Y, HX, h) ==
  LET n == Len(X) + Len(Y)
      R == {HX[i] : i \in 1..Len(HX)}
      Nb == {j \in 1..n : \E i \in R : DDef(X, Y, i, j) <= h}
  IN R \subseteq 1..n /\ Cardinality(Nb) < Cardinality(R)
CertOK(c, X, Y) == /\ PmValid(X, Y, c.pm, c.hopt)
                   /\ (c.hopt = 0 \/ HallValid(X, Y, c.hallX, c.hopt - 1))

\* the placeholder is the FLOAT point (0,0): under a shifted embedding that is tick (pad, pad)
PadP(X, pad) == IF X = <<>> THEN << <<pad, pad>> >> ELSE X
Certifies(X, Y, rws, dist, q) ==
     /\ \A i \in 0..(Len(X) - 1) : Cardinality({r \in 1..Len(rws) : rws[r][1] = i}) = 1
     /\ \A j \in 0..(Len(Y) - 1) : Cardinality({r \in 1..Len(rws) : rws[r][2] = j}) = 1
     /\ \A r \in 1..Len(rws) :
           /\ rws[r][1] \in -1..(Len(X) - 1) /\ rws[r][2] \in -1..(Len(Y) - 1)
           /\ ~(rws[r][1] = -1 /\ rws[r][2] = -1)
           /\ rws[r][3] = q * (IF rws[r][2] = -1 THEN CostDiagDef(X[rws[r][1] + 1])
                               ELSE IF rws[r][1] = -1 THEN CostDiagDef(Y[rws[r][2] + 1])
                               ELSE CostPPDef(X[rws[r][1] + 1], Y[rws[r][2] + 1]))
     /\ Max({0} \cup {rws[r][3] : r \in 1..Len(rws)}) = dist

(* ---- algorithm layer: replay of the binary search from the logged probe outcomes ---- *)
RECURSIVE Search(_, _, _)
\* n = current Len(ds); returns TRUE iff every logged probe has the n_ds / idx the code's search would have
Search(n, probes, i) ==
  IF n = 0 THEN i = Len(probes) + 1
  ELSE IF i > Len(probes) THEN FALSE
  ELSE LET idx == IF n > 1 THEN n \div 2 ELSE 0 IN
       /\ probes[i][1] = n /\ probes[i][2] = idx
       /\ Search(IF probes[i][3] = 1 THEN idx ELSE n - idx - 1, probes, i + 1)
NumCands(X, Y) == LET n == Len(X) + Len(Y) IN Cardinality({DDef(X, Y, i, j) : i \in 1..n, j \in 1..n})

Verdict(c) ==
  LET X == Pts(c.S) Y == Pts(c.T)
      PX == PadP(X, c.pad) PY == PadP(Y, c.pad)
      dropped1 == \E i \in 1..Len(c.S) : c.S[i][3] = 0
      dropped2 == \E i \in 1..Len(c.T) : c.T[i][3] = 0
      alg == IF c.hook = 0 THEN "nohook"
             ELSE IF Search(NumCands(PX, PY), c.probes, 1) THEN "ok" ELSE "probe-sequence-differs"
  IN IF ~CertOK(c, X, Y) THEN <<"machinery", "bad-certificate", alg>>
     ELSE IF c.brute = 1 /\ BottleneckDef(X, Y) # c.hopt THEN <<"machinery", "certificate-vs-definition", alg>>
     ELSE IF c.lattice = 0 THEN <<"fail", "value-off-lattice", alg>>
     ELSE IF c.mine # "C06" /\ c.dist # c.q * c.hopt THEN <<"fail", <<"C01-not-optimal", c.dist, c.q * c.hopt>>, alg>>
     ELSE IF c.mine # "C06" /\ ((dropped1 /\ c.warn[1] = 0) \/ (dropped2 /\ c.warn[2] = 0)) THEN <<"fail", "C01-dropped-without-warning", alg>>
     ELSE IF c.hasrows = 1 /\ c.distm # c.dist THEN <<"fail", "C06-distance-differs-with-matching", alg>>
     ELSE IF c.hasrows = 1 /\ ~Certifies(PX, PY, c.rows, c.distm, c.q) THEN <<"fail", "C06-not-a-certificate", alg>>
     ELSE IF alg = "probe-sequence-differs" THEN <<"divergence", alg, alg>>
     ELSE <<"ok", "", alg>>

TInit == k = 1
TNext == /\ k <= Len(Cases)
         /\ PrintT(<<"V", k>> \o Verdict(Cases[k]))
         /\ k' = k + 1
AllConsumed == TLCGet("stats").diameter = Len(Cases) + 1
=============================================================================
