------------------------------- MODULE TraceHeat -------------------------------
(* Batch validation of recorded persim.heat calls on the diagrams TLC enumerated from HeatKernel.tla's initial states (spec -> code),
   with the model's own definitional operators (HeatDef.tla): heat^2 * pi = ln 2 * SqNorm(F, G) / 2^R at sigma = 1/(8 ln 2)
   (under an embedding x = s * tick the call uses sigma * s^2 and the harness multiplies the result by s: the scaling law).
   case : F, G = [[b, d]] (ticks), h = [finite, value (Fix, tick units)], hsym = [finite, value] of the call with the arguments swapped *)
EXTENDS HeatDef, Tables, TLC, Json, IOUtils, TLCExt
Cases == JsonDeserialize(IOEnv.TRACE_FILE)
VARIABLE k
Tup2(d) == [n \in 1..Len(d) |-> <<d[n][1], d[n][2]>>]
Verdict(c) ==
  LET f == Tup2(c.F)  g == Tup2(c.G)
      num == SqNorm(f, g)
      lhs == FMul(FMul(c.h[2], c.h[2]), Pi)
      rhs == FDivInt(FMulInt(Ln2, num), Pow2(R))
  IN IF c.h[1] = 0 \/ c.hsym[1] = 0 THEN <<"fail", "not-finite-or-NaN", 0>>
     ELSE IF c.h[2].s < 0 /\ c.h[2].m # <<>> THEN <<"fail", "negative", 0>>
     ELSE IF ~FCloseRel(lhs, rhs, E12, E9) THEN <<"fail", "heat-value-differs-from-kernel-formula", num>>
     ELSE IF ~FCloseRel(c.h[2], c.hsym[2], E12, E9) THEN <<"fail", "asymmetric", 0>>
     ELSE <<"ok", "", num>>
TInit == k = 1
TNext == /\ k <= Len(Cases)
         /\ PrintT(<<"V", k>> \o Verdict(Cases[k]))
         /\ k' = k + 1
AllConsumed == TLCGet("stats").diameter = Len(Cases) + 1
=============================================================================
