------------------------------- MODULE TraceEntropy -------------------------------
(* Batch validation of recorded persistent_entropy calls (C16).  Coordinates in ticks; values as Fix records.
   case : dgms = [[[b, d, fin]]], keepinf, hasvi, vi, normalize, raised (0/1), vals = [[finite, value]]                *)
EXTENDS Tables, FiniteSets, TLC, FiniteSetsExt, SequencesExt, Json, IOUtils, TLCExt
Cases == JsonDeserialize(IOEnv.TRACE_FILE)
VARIABLE k
Log2(n) == CHOOSE kk \in 0..30 : 2 ^ kk = n
IsPow2(n) == \E kk \in 0..30 : 2 ^ kk = n
SumSeq(s) == LET S[j \in 0..Len(s)] == IF j = 0 THEN 0 ELSE S[j - 1] + s[j] IN S[Len(s)]
\* the bars that take part, per the flags (property layer: drop / substitute)
Kept(d, c) == IF c.keepinf = 0 THEN SelectSeq(d, LAMBDA bar : bar[3] = 1)
              ELSE [j \in 1..Len(d) |-> <<d[j][1], IF d[j][3] = 0 THEN c.vi ELSE d[j][2], 1>>]
Lens(d) == [j \in 1..Len(d) |-> d[j][2] - d[j][1]]
\* keep_inf without a substitution value is not covered by the property (the code raises; any outcome is accepted)
Unspecified(c) == c.keepinf = 1 /\ c.hasvi = 0
MustRaise(c) == \E q \in 1..Len(c.dgms) : \E j \in 1..Len(Kept(c.dgms[q], c)) : Lens(Kept(c.dgms[q], c))[j] <= 0
Kraft(ls) == LET T == SumSeq(ls) IN \A j \in 1..Len(ls) : T % ls[j] = 0 /\ IsPow2(T \div ls[j])
AllEqual(ls) == \A a, b \in 1..Len(ls) : ls[a] = ls[b]
\* exact entropy of a dyadic family: ln 2 * sum_i k_i l_i / T
KraftE(ls) == LET T == SumSeq(ls) IN FDivInt(FMulInt(Ln2, SumSeq([j \in 1..Len(ls) |-> Log2(T \div ls[j]) * ls[j]])), T)
TolE == E12
\* same multiset of lengths up to a common positive factor => same entropy (reordering, translation, rescaling)
SortedLens(ls) == SortSeq(ls, <)
SameShape(l1, l2) == Len(l1) = Len(l2) /\ LET a == SortedLens(l1) b == SortedLens(l2) IN \A j \in 1..Len(a) : a[j] * SumSeq(l2) = b[j] * SumSeq(l1)
ValueClause(c, q) ==
  LET ls == Lens(Kept(c.dgms[q], c))  n == Len(ls)  v == c.vals[q]  e == v[2] IN
  IF n = 0 \/ (c.normalize = 1 /\ n = 1) THEN "ok"         \* outside the property's domain (no bars / normalised single bar)
  ELSE IF v[1] = 0 THEN "value-not-finite"
  ELSE IF c.normalize = 0 THEN
       (IF Kraft(ls) THEN (IF FClose(e, KraftE(ls), TolE) THEN "ok" ELSE "entropy-differs-on-dyadic-family")
        ELSE IF AllEqual(ls) /\ n <= 64 THEN (IF FClose(e, LnTab(n), TolE) THEN "ok" ELSE "equal-bars-not-log-n")
        ELSE IF ~FLeq(FNeg(TolE), e) THEN "negative-entropy"
        ELSE IF n <= 64 /\ ~FLeq(e, FAdd(LnTab(n), TolE)) THEN "entropy-above-log-n"
        ELSE "ok")
  ELSE (IF Kraft(ls) /\ n <= 64 THEN (IF FClose(FMul(e, LnTab(n)), KraftE(ls), TolE) THEN "ok" ELSE "normalised-entropy-differs-on-dyadic-family")
        ELSE IF AllEqual(ls) THEN (IF FClose(e, FInt(1), TolE) THEN "ok" ELSE "normalised-equal-bars-not-one")
        ELSE IF ~(FLeq(FNeg(TolE), e) /\ FLeq(e, FAdd(FInt(1), TolE))) THEN "normalised-entropy-outside-unit-interval"
        ELSE "ok")
Verdict(c) ==
  IF Unspecified(c) THEN <<"ok", "unspecified-keep_inf-without-value", 0>>
  ELSE IF MustRaise(c) THEN (IF c.raised = 1 THEN <<"ok", "error-outcome", 0>> ELSE <<"fail", "non-positive-bar-or-missing-val_inf-did-not-raise", 0>>)
  ELSE IF c.raised = 1 THEN <<"fail", "raised-on-valid-input", 0>>
  ELSE IF Len(c.vals) # Len(c.dgms) THEN <<"fail", "not-one-value-per-diagram", 0>>
  ELSE LET bad == {q \in 1..Len(c.dgms) : ValueClause(c, q) # "ok"} IN
       IF bad # {} THEN <<"fail", ValueClause(c, Min(bad)), Min(bad)>>
       ELSE LET inv == {<<q, r>> \in (1..Len(c.dgms)) \X (1..Len(c.dgms)) :
                           q < r /\ Len(Kept(c.dgms[q], c)) > 0 /\ c.vals[q][1] = 1 /\ c.vals[r][1] = 1
                           /\ ~(c.normalize = 1 /\ Len(Kept(c.dgms[q], c)) = 1)
                           /\ SameShape(Lens(Kept(c.dgms[q], c)), Lens(Kept(c.dgms[r], c))) /\ ~FClose(c.vals[q][2], c.vals[r][2], TolE)}
            IN IF inv # {} THEN <<"fail", "not-invariant-under-reordering-translation-rescaling", 0>> ELSE <<"ok", "", 0>>
TInit == k = 1
TNext == /\ k <= Len(Cases)
         /\ PrintT(<<"V", k>> \o Verdict(Cases[k]))
         /\ k' = k + 1
AllConsumed == TLCGet("stats").diameter = Len(Cases) + 1
=============================================================================
