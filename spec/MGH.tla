------------------------------ MODULE MGH ------------------------------
(* Model: every ordered pair of connected labelled graphs on at most MaxV vertices; the lower-bound loop one action per
   iteration; the upper-bound heuristic with NONDETERMINISTIC permutation and first image (the RNG-schedule quantifier). *)
EXTENDS MGHCore
CONSTANTS MaxV, WithUb   \* WithUb = FALSE: lower-bound machine only (cheaper, larger MaxV)
VARIABLES DX, DY, pc, d, lb, smp   \* smp = <<direction, imgs-as-map, reported distortion>> of the last sample
vars == <<DX, DY, pc, d, lb, smp>>

P1 == Permutations(1..1)
P2 == Permutations(1..2)
P3 == Permutations(1..3)
P4 == Permutations(1..4)
P5 == Permutations(1..5)
Perms(n) == CASE n = 1 -> P1 [] n = 2 -> P2 [] n = 3 -> P3 [] n = 4 -> P4 [] n = 5 -> P5
PairsOf(n) == {<<i, j>> \in (1..n) \X (1..n) : i < j}
ConnMatrices(n) == {D \in {DistMatrix(n, E) : E \in SUBSET PairsOf(n)} : IsConnectedD(D)}
AllSpaces == UNION {ConnMatrices(n) : n \in 1..MaxV}

Init == /\ \E p \in AllSpaces \X AllSpaces : DX = p[1] /\ DY = p[2]     \* one evaluation of AllSpaces
        /\ pc = "lb" /\ d = Max2(Diam(DX), Diam(DY)) /\ lb = TrivialLb(DX, DY) /\ smp = <<>>
LbStep == /\ pc = "lb" /\ d > lb
          /\ lb' = LbIter(DX, DY, d, lb) /\ d' = d - 1
          /\ UNCHANGED <<DX, DY, pc, smp>>
LbDone == pc = "lb" /\ d <= lb /\ pc' = (IF WithUb THEN "ub" ELSE "lbdone") /\ UNCHANGED <<DX, DY, d, lb, smp>>
SampleXY == /\ pc = "ub"
            /\ \E pi \in Perms(N(DX)), y0 \in 1..N(DY) :
                 LET r == GreedyMap(DX, DY, pi, y0) IN smp' = <<"XY", AsMap(pi, r[1]), r[2]>>
            /\ pc' = "sampled" /\ UNCHANGED <<DX, DY, d, lb>>
SampleYX == /\ pc = "ub"
            /\ \E pi \in Perms(N(DY)), x0 \in 1..N(DX) :
                 LET r == GreedyMap(DY, DX, pi, x0) IN smp' = <<"YX", AsMap(pi, r[1]), r[2]>>
            /\ pc' = "sampled" /\ UNCHANGED <<DX, DY, d, lb>>
Next == LbStep \/ LbDone \/ SampleXY \/ SampleYX
Spec == Init /\ [][Next]_vars
\* liveness: the lower-bound loop ends (d strictly decreases, lb never decreases) and, with the heuristic enabled, a sample is produced
FairSpec == Spec /\ WF_vars(Next)
Termination == <>(pc \in {"lbdone", "sampled"})
LoopVariant == [][(pc = "lb" /\ pc' = "lb") => (d' < d /\ lb' >= lb)]_vars

T2 == True2(DX, DY)
LbSound == lb <= T2                                   \* in every state of the loop, not only at its end
OracleAgrees == pc \in {"ub", "lbdone"} => (MinDis(DX, DY) = MinDisEnum(DX, DY))
LbEqualsFindLb == pc \in {"ub", "lbdone"} => lb = FindLb(DX, DY)     \* the action-per-iteration machine = the recursive operator used on traces
UbIsRealMap == pc = "sampled" => (smp[3] = (IF smp[1] = "XY" THEN Dis(DX, DY, smp[2]) ELSE Dis(DY, DX, smp[2])))
\* every single sample is an upper bound of its direction's minimum distortion; the returned ub is a max of mins of samples
UbSound == pc = "sampled" => (smp[3] >= (IF smp[1] = "XY" THEN MinDis(DX, DY) ELSE MinDis(DY, DX)))
\* Theorems A/B do not depend on WHICH d-bounded curvature the pruning finds (its sort key is a heuristic, and in the code it is computed in a
\* narrow integer type that can wrap for large graphs): confirmation with ANY d-bounded principal submatrix of size >= 3 is sound
BoundedSub(D, sel, dd) == \A i, j \in sel : i # j => D[i][j] >= dd
AnyCurvatureSound == pc \in {"ub", "lbdone"} =>
    LET md == Max2(Diam(DX), Diam(DY)) IN
    /\ \A dd \in 1..md : \A sel \in {q \in SUBSET (1..N(DX)) : Cardinality(q) > 2} :
          (BoundedSub(DX, sel, dd) /\ Confirm(dd, SubMatrix(DX, sel), DY, md)) => dd <= T2
    /\ \A dd \in 1..md : \A sel \in {q \in SUBSET (1..N(DY)) : Cardinality(q) > 2} :
          (BoundedSub(DY, sel, dd) /\ Confirm(dd, SubMatrix(DY, sel), DX, md)) => dd <= T2
\* closed form used by the trace validator at sizes where the generic oracle is too slow
PointLemma == (N(DY) = 1 => T2 = Diam(DX)) /\ (N(DX) = 1 => T2 = Diam(DY))
IsoZero == (pc \in {"ub", "lbdone"} /\ N(DX) = N(DY) /\ \E p \in Perms(N(DX)) : IsIsomorphism(DX, DY, p)) => lb = 0
=============================================================================
