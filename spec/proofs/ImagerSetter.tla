---------------------------- MODULE ImagerSetter ----------------------------
(* Unbounded version of the C12 contract for one range setter, proved with TLAPS for ALL integers (ImagerGeometry.tla checks the
   same arithmetic exhaustively for small constants only).  Lengths in half ticks; the pixel count n is characterised by
   (n-1)*ps < e <= n*ps, i.e. n = ceil(e/ps), so no division appears.                                                    *)
EXTENDS Integers, TLAPS

THEOREM SetterContract ==
  ASSUME NEW lo \in Int, NEW hi \in Int, NEW ps \in Int, NEW n \in Int, NEW h \in Int,
         lo < hi, ps > 0,
         (n - 1) * ps < hi - lo, hi - lo <= n * ps,          \* n = ceil((hi-lo)/ps)
         2 * h = n * ps - (hi - lo)                           \* symmetric padding by h on each side (the excess is even in half ticks)
  PROVE  LET B0 == lo - h  B1 == hi + h IN
         /\ B1 - B0 = n * ps                                  \* resolution * pixel size = covered width
         /\ B0 <= lo /\ hi <= B1                              \* covers what was asked
         /\ (B1 - B0) - (hi - lo) < ps                        \* exceeds it by less than one pixel
         /\ n >= 1
  <1>1. n * ps - (hi - lo) >= 0 OBVIOUS
  <1>2. h >= 0 BY <1>1
  <1>3. n * ps - (hi - lo) < ps
        <2>1. n * ps - ps < hi - lo BY (n - 1) * ps = n * ps - ps
        <2> QED BY <2>1
  <1>4. n >= 1
        <2>1. n * ps >= hi - lo OBVIOUS
        <2>2. n * ps > 0 BY <2>1
        <2> QED BY <2>2, ps > 0
  <1> QED BY <1>2, <1>3, <1>4
=============================================================================
