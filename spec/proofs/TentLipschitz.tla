---------------------------- MODULE TentLipschitz ----------------------------
(* Unbounded (all integers) half of the C08 bound, proved with TLAPS: moving each endpoint of a bar by at most half a grid
   step moves its tent function by at most half a step at every t.  Everything is doubled to stay in the integers:
   2|b - b'| <= s  /\  2|d - d'| <= s   =>   2|Tent(b,d,t) - Tent(b',d',t)| <= s.                                        *)
EXTENDS Integers, TLAPS
Min2(a, b) == IF a <= b THEN a ELSE b
Max2(a, b) == IF a >= b THEN a ELSE b
Abs(x) == IF x >= 0 THEN x ELSE -x
Tent(b, d, t) == Max2(0, Min2(t - b, d - t))

THEOREM TentLip ==
  ASSUME NEW b \in Int, NEW d \in Int, NEW bp \in Int, NEW dp \in Int, NEW t \in Int, NEW s \in Int,
         2 * Abs(b - bp) <= s, 2 * Abs(d - dp) <= s
  PROVE  2 * Abs(Tent(b, d, t) - Tent(bp, dp, t)) <= s
  BY DEF Tent, Min2, Max2, Abs

(* the k-th largest of finitely many values moves by at most the largest individual move; stated for two bars (k = 1, 2) *)
THEOREM MaxLip ==
  ASSUME NEW x \in Int, NEW y \in Int, NEW xp \in Int, NEW yp \in Int, NEW e \in Int,
         Abs(x - xp) <= e, Abs(y - yp) <= e
  PROVE  Abs(Max2(x, y) - Max2(xp, yp)) <= e /\ Abs(Min2(x, y) - Min2(xp, yp)) <= e
  BY DEF Min2, Max2, Abs
=============================================================================
