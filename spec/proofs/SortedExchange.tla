---------------------------- MODULE SortedExchange ----------------------------
(* The exchange step behind "sorted matching is optimal in one dimension" (C15), for ALL integers: uncrossing a pair of matched
   points never increases the cost.  SlicedWasserstein.tla checks the full statement exhaustively for sequences up to length 5;
   this lemma is the inductive step that makes it true at every size.                                                      *)
EXTENDS Integers, TLAPS
Abs(x) == IF x >= 0 THEN x ELSE -x
THEOREM Uncross ==
  ASSUME NEW a1 \in Int, NEW a2 \in Int, NEW b1 \in Int, NEW b2 \in Int, a1 <= a2, b1 <= b2
  PROVE  Abs(a1 - b1) + Abs(a2 - b2) <= Abs(a1 - b2) + Abs(a2 - b1)
  BY DEF Abs
THEOREM TranslationInvariant ==
  ASSUME NEW a \in Int, NEW b \in Int, NEW t \in Int
  PROVE  Abs((a + t) - (b + t)) = Abs(a - b)
  BY DEF Abs
=============================================================================
