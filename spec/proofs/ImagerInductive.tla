---------------------------- MODULE ImagerInductive ----------------------------
(* Apalache: the geometry contract of ImagerGeometry.tla as an INDUCTIVE invariant over UNBOUNDED integers (TLC checks it for
   small constants only).  Lengths in half ticks; requested endpoints and pixel sizes are even (whole ticks).
   apalache-mc check --init=IndInit --inv=IndInv --length=1 ImagerInductive.tla                                             *)
EXTENDS Integers
VARIABLES
  \* @type: Int;
  ps,
  \* @type: Int;
  b0,
  \* @type: Int;
  b1,
  \* @type: Int;
  p0,
  \* @type: Int;
  p1,
  \* @type: Int;
  rx,
  \* @type: Int;
  ry

CeilDiv(a, b) == (a + b - 1) \div b
IndInv == /\ ps > 0 /\ ps % 2 = 0
          /\ rx >= 1 /\ ry >= 1
          /\ rx * ps = b1 - b0 /\ ry * ps = p1 - p0
IndInit == /\ ps \in Int /\ b0 \in Int /\ b1 \in Int /\ p0 \in Int /\ p1 \in Int /\ rx \in Int /\ ry \in Int
           /\ IndInv
\* the setters' arithmetic as coded (ceil to whole pixels, symmetric padding); v0 < v1 even
SetBirth(v0, v1) ==
  LET w == CeilDiv(v1 - v0, ps) * ps
      db == w - (v1 - v0) IN
  /\ b0' = v0 - db \div 2 /\ b1' = v1 + db \div 2 /\ rx' = w \div ps
  /\ UNCHANGED <<ps, p0, p1, ry>>
SetPers(v0, v1) ==
  LET h == CeilDiv(v1 - v0, ps) * ps
      dp == h - (v1 - v0) IN
  /\ p0' = v0 - dp \div 2 /\ p1' = v1 + dp \div 2 /\ ry' = h \div ps
  /\ UNCHANGED <<ps, b0, b1, rx>>
SetPix(pz) ==
  LET w == CeilDiv(b1 - b0, pz) * pz
      h == CeilDiv(p1 - p0, pz) * pz
      db == w - (b1 - b0)
      dp == h - (p1 - p0) IN
  /\ ps' = pz /\ rx' = w \div pz /\ ry' = h \div pz
  /\ b0' = b0 - db \div 2 /\ b1' = b1 + db \div 2 /\ p0' = p0 - dp \div 2 /\ p1' = p1 + dp \div 2
Next == \/ \E v0 \in Int, v1 \in Int : v0 < v1 /\ v0 % 2 = 0 /\ v1 % 2 = 0 /\ SetBirth(v0, v1)
        \/ \E v0 \in Int, v1 \in Int : v0 < v1 /\ v0 % 2 = 0 /\ v1 % 2 = 0 /\ SetPers(v0, v1)
        \/ \E pz \in Int : pz > 0 /\ pz % 2 = 0 /\ SetPix(pz)
=============================================================================
