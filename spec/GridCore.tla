------------------------------ MODULE GridCore ------------------------------
(* Grid-sampled ("approximate") persistence landscapes, persim/landscapes/approximate.py + auxiliary.ndsnap_regular.
   Grid nodes 0..n-1 at positions i*s (ticks, relative to start); bar endpoints are arbitrary ticks in [0, (n-1)*s].
   PROPERTY LAYER : TentDef, KthDef, HalfStepOK, ExactOK.
   ALGORITHM LAYER: Snap (nearest node, ties to the lower index = np.argmin), Ramp (the code's mid-point rounding),
                    KthAlg, Depths.                                                                               *)
EXTENDS Integers, Sequences, FiniteSets, TLC, FiniteSetsExt, SequencesExt
Max2(a, b) == IF a >= b THEN a ELSE b
Min2(a, b) == IF a <= b THEN a ELSE b
Abs(x) == IF x >= 0 THEN x ELSE -x
(* ------------------------------ property layer ------------------------------ *)
TentDef(bar, t) == Max2(0, Min2(t - bar[1], bar[2] - t))
KthDef(bars, t, k) ==
  LET vals   == {TentDef(bars[i], t) : i \in 1..Len(bars)} \cup {0}
      cnt(v) == Cardinality({i \in 1..Len(bars) : TentDef(bars[i], t) >= v})
  IN  Max({v \in vals : v = 0 \/ cnt(v) >= k})
\* vals[k][i+1] = value of depth k at node i ; depths beyond Len(vals) count as zero
Obs(vals, k, i) == IF k <= Len(vals) THEN vals[k][i + 1] ELSE 0
HalfStepOK(bars, n, s, vals) ==
  \A i \in 0..(n - 1) : \A k \in 1..(Max2(Len(bars), Len(vals)) + 1) : 2 * Abs(Obs(vals, k, i) - KthDef(bars, i * s, k)) <= s
ExactOK(bars, n, s, vals) ==
  \A i \in 0..(n - 1) : \A k \in 1..(Max2(Len(bars), Len(vals)) + 1) : Obs(vals, k, i) = KthDef(bars, i * s, k)
OnGrid(bars, s) == \A j \in 1..Len(bars) : bars[j][1] % s = 0 /\ bars[j][2] % s = 0
(* ------------------------------ algorithm layer ------------------------------ *)
Snap(x, n, s) == LET m == Min({Abs(i * s - x) : i \in 0..(n - 1)}) IN Min({i \in 0..(n - 1) : Abs(i * s - x) = m})
\* value contributed by the snapped bar (ib, id) at node i ; 0 = no entry
Ramp(ib, id, i, s) == LET mid == ib + (id - ib) \div 2 IN
    IF i > ib /\ i <= mid THEN (i - ib) * s
    ELSE IF i > mid /\ i < id THEN (id - i) * s
    ELSE 0
KthOfSeq(ws, k) == \* k-th largest entry of a sequence of positive values, 0 if fewer
  LET vals == {ws[j] : j \in 1..Len(ws)} \cup {0}
      cnt(v) == Cardinality({j \in 1..Len(ws) : ws[j] >= v})
  IN Max({v \in vals : v = 0 \/ cnt(v) >= k})
=============================================================================
