---------------------------- MODULE Bottleneck ----------------------------
(* persim.bottleneck as a state machine, one action per block of the function.
   PROPERTY LAYER : CostPPDef, CostDiagDef, BottleneckDef (min over partial injective pairings of the max cost),
                    Certifies (C06).
   ALGORITHM LAYER: Filter, Pad, BuildMatrix, Probe (any maximum matching = the hash-seed quantifier), Extract.
   Costs are in HALF ticks so that (d-b)/2 is an integer.  Points are <<b, d, fin>>, fin = FALSE: infinite death. *)
EXTENDS Integers, Sequences, FiniteSets, TLC, FiniteSetsExt, SequencesExt, Json, IOUtils
CONSTANTS B,            \* lattice: coordinates 0..B
          MaxS, MaxT,   \* maximum number of points per diagram
          WithInf,      \* include diagrams with (at most one) infinite-death point
          TrackMatching \* explore every perfect matching the matching routine may return (C06)

INF == 1000000
Abs(x) == IF x >= 0 THEN x ELSE -x
Max2(a, b) == IF a >= b THEN a ELSE b

(* ------------------------------ property layer ------------------------------ *)
CostPPDef(p, q) == LET a == Abs(p[1] - q[1]) b == Abs(p[2] - q[2]) IN 2 * (IF a >= b THEN a ELSE b)
CostDiagDef(p) == p[2] - p[1]
FinPts(X) == SelectSeq(X, LAMBDA p : p[3])
PairingCost(X, Y, f) ==
  Max({0} \cup {IF f[i] = 0 THEN CostDiagDef(X[i]) ELSE CostPPDef(X[i], Y[f[i]]) : i \in 1..Len(X)}
          \cup {CostDiagDef(Y[j]) : j \in {j \in 1..Len(Y) : \A i \in 1..Len(X) : f[i] # j}})
AllInjs(m, n) == {f \in [1..m -> 0..n] : \A i, j \in 1..m : (i # j /\ f[i] # 0) => f[i] # f[j]}
BottleneckDef(X, Y) == Min({PairingCost(X, Y, f) : f \in AllInjs(Len(X), Len(Y))})

(* ------------------------------ algorithm layer ------------------------------ *)
PadDgm(X) == IF X = <<>> THEN << <<0, 0, TRUE>> >> ELSE X
Matrix(X, Y) ==
  LET M == Len(X) N == Len(Y) IN
  [i \in 1..(M + N) |-> [j \in 1..(M + N) |->
      IF i <= M /\ j <= N THEN 2 * Max2(Abs(X[i][1] - Y[j][1]), Abs(X[i][2] - Y[j][2]))
      ELSE IF i <= M THEN (IF j - N = i THEN X[i][2] - X[i][1] ELSE INF)
      ELSE IF j <= N THEN (IF i - M = j THEN Y[j][2] - Y[j][1] ELSE INF)
      ELSE 0]]
Entries(DD) == {DD[i][j] : i \in 1..Len(DD), j \in 1..Len(DD)}
P1 == Permutations(1..1)
P2 == Permutations(1..2)
P3 == Permutations(1..3)
P4 == Permutations(1..4)
P5 == Permutations(1..5)
P6 == Permutations(1..6)
P7 == Permutations(1..7)
Perms(n) == CASE n = 1 -> P1 [] n = 2 -> P2 [] n = 3 -> P3 [] n = 4 -> P4 [] n = 5 -> P5 [] n = 6 -> P6 [] n = 7 -> P7
PerfectAt(DD, d) == {f \in Perms(Len(DD)) : \A i \in 1..Len(DD) : DD[i][f[i]] <= d}
Feasible(DD, d) == PerfectAt(DD, d) # {}

VARIABLES S, T,        \* inputs
          FS, FT,      \* filtered / padded working diagrams
          warn,        \* <<dgm1 warning raised, dgm2 warning raised>>
          D, ds, bdist, match, pc, rows
vars == <<S, T, FS, FT, warn, D, ds, bdist, match, pc, rows>>

Coords == {<<b, d>> \in (0..B) \X (0..B) : b <= d}
Lt(p, q) == p[1] < q[1] \/ (p[1] = q[1] /\ p[2] <= q[2])
FinDgms(n) == { s \in UNION {[1..m -> Coords] : m \in 0..n} : \A i \in 1..(Len(s) - 1) : Lt(s[i], s[i+1]) }
Tag(s) == [i \in 1..Len(s) |-> <<s[i][1], s[i][2], TRUE>>]
Dgms(n) == {Tag(s) : s \in FinDgms(n)} \cup
           (IF WithInf THEN {Tag(s) \o << <<b, 0, FALSE>> >> : s \in FinDgms(n - 1), b \in 0..1} ELSE {})

Init == /\ S \in Dgms(MaxS) /\ T \in Dgms(MaxT)
        /\ FS = <<>> /\ FT = <<>> /\ warn = <<FALSE, FALSE>> /\ D = <<>> /\ ds = <<>> /\ bdist = -1
        /\ match = <<>> /\ rows = <<>> /\ pc = "filter"

Filter == /\ pc = "filter"
          /\ FS' = FinPts(S) /\ FT' = FinPts(T)
          /\ warn' = <<Len(FinPts(S)) < Len(S), Len(FinPts(T)) < Len(T)>>
          /\ pc' = "pad" /\ UNCHANGED <<S, T, D, ds, bdist, match, rows>>
Pad ==    /\ pc = "pad" /\ FS' = PadDgm(FS) /\ FT' = PadDgm(FT)
          /\ pc' = "matrix" /\ UNCHANGED <<S, T, warn, D, ds, bdist, match, rows>>
BuildMatrix ==
          /\ pc = "matrix"
          /\ D' = Matrix(FS, FT)
          /\ ds' = SetToSortSeq(Entries(Matrix(FS, FT)), <)
          /\ bdist' = Max(Entries(Matrix(FS, FT)))
          /\ pc' = "search" /\ UNCHANGED <<S, T, FS, FT, warn, match, rows>>
Probe ==  /\ pc = "search" /\ Len(ds) >= 1
          /\ LET idx == IF Len(ds) > 1 THEN Len(ds) \div 2 ELSE 0
                 d   == ds[idx + 1] IN
             IF Feasible(D, d) /\ d <= bdist
             THEN /\ bdist' = d /\ ds' = SubSeq(ds, 1, idx)
                  /\ IF TrackMatching THEN match' \in PerfectAt(D, d) ELSE match' = <<>>
             ELSE bdist' = bdist /\ ds' = SubSeq(ds, idx + 2, Len(ds)) /\ match' = match
          /\ UNCHANGED <<S, T, FS, FT, warn, D, pc, rows>>
\* re-indexing of the matching as coded: 0-based indices, -1 = diagonal, diagonal-diagonal rows dropped
RowOf(i) == LET M == Len(FS) N == Len(FT) j == match[i] IN
            IF i <= M THEN <<i - 1, IF j > N THEN -1 ELSE j - 1, D[i][j]>>
            ELSE <<-1, j - 1, D[i][j]>>
Extract == /\ pc = "search" /\ ds = <<>>
           /\ rows' = IF TrackMatching
                      THEN LET keep == SelectSeq([i \in 1..Len(D) |-> i], LAMBDA i : ~(i > Len(FS) /\ match[i] > Len(FT)))
                           IN [r \in 1..Len(keep) |-> RowOf(keep[r])]
                      ELSE <<>>
           /\ pc' = "done" /\ UNCHANGED <<S, T, FS, FT, warn, D, ds, bdist, match>>
Next == Filter \/ Pad \/ BuildMatrix \/ Probe \/ Extract
Spec == Init /\ [][Next]_vars
\* liveness: under weak fairness every run reaches "done"; the reason is the variant below (each probe strictly shortens the candidate list)
FairSpec == Spec /\ WF_vars(Next)
Termination == <>(pc = "done")
SearchShrinks == [][(pc = "search" /\ pc' = "search") => Len(ds') < Len(ds)]_vars
BestNeverWorsens == [][(pc = "search" /\ pc' = "search") => bdist' <= bdist]_vars

\* spec -> code: the diagram set Init ranges over, for replay through the real function
DumpInit == /\ JsonSerialize(IOEnv.DUMP_FILE, SetToSeq(Dgms(MaxS)))
            /\ S = <<>> /\ T = <<>> /\ FS = <<>> /\ FT = <<>> /\ warn = <<FALSE, FALSE>> /\ D = <<>> /\ ds = <<>>
            /\ bdist = -1 /\ match = <<>> /\ rows = <<>> /\ pc = "dump"
DumpNext == UNCHANGED vars

(* ------------------------------ properties ------------------------------ *)
\* C01
Optimal == pc = "done" => bdist = BottleneckDef(FinPts(S), FinPts(T))
WarnIffDropped == pc = "done" => (warn[1] = (\E i \in 1..Len(S) : ~S[i][3]) /\ warn[2] = (\E i \in 1..Len(T) : ~T[i][3]))
\* the inductive argument of the binary search
SearchInv == pc = "search" =>
     /\ Feasible(D, bdist)
     /\ \A c \in Entries(D) : (c < bdist /\ c \notin {ds[i] : i \in 1..Len(ds)}) => ~Feasible(D, c)
\* C07 at the level of the definition: symmetry, triangle through any third small diagram, and invariance under an added diagonal
\* point and under translation along the diagonal (theorems of the definition; they guard the specification itself)
XY(X) == [q \in 1..Len(X) |-> <<X[q][1], X[q][2]>>]
LawsOnDefinition == pc = "done" =>
     LET X == XY(FinPts(S)) Y == XY(FinPts(T)) IN
     /\ BottleneckDef(X, Y) = BottleneckDef(Y, X)
     /\ \A Z \in {<<>>, << <<0, B>> >>, << <<0, 1>>, <<1, B>> >>} : BottleneckDef(X, Y) <= BottleneckDef(X, Z) + BottleneckDef(Z, Y)
     /\ BottleneckDef(Append(X, <<1, 1>>), Y) = BottleneckDef(X, Y)
     /\ BottleneckDef([q \in 1..Len(X) |-> <<X[q][1] + 3, X[q][2] + 3>>], [q \in 1..Len(Y) |-> <<Y[q][1] + 3, Y[q][2] + 3>>]) = BottleneckDef(X, Y)
     /\ (Y = <<>> => BottleneckDef(X, Y) = Max({0} \cup {X[q][2] - X[q][1] : q \in 1..Len(X)}))
\* C06: any matching the routine can return is a certificate
Certifies(X, Y, rws, dist) ==
     /\ \A i \in 0..(Len(X) - 1) : Cardinality({r \in 1..Len(rws) : rws[r][1] = i}) = 1
     /\ \A j \in 0..(Len(Y) - 1) : Cardinality({r \in 1..Len(rws) : rws[r][2] = j}) = 1
     /\ \A r \in 1..Len(rws) :
           /\ rws[r][1] \in -1..(Len(X) - 1) /\ rws[r][2] \in -1..(Len(Y) - 1)
           /\ ~(rws[r][1] = -1 /\ rws[r][2] = -1)
           /\ rws[r][3] = (IF rws[r][2] = -1 THEN CostDiagDef(X[rws[r][1] + 1])
                           ELSE IF rws[r][1] = -1 THEN CostDiagDef(Y[rws[r][2] + 1])
                           ELSE CostPPDef(X[rws[r][1] + 1], Y[rws[r][2] + 1]))
     /\ Max({0} \cup {rws[r][3] : r \in 1..Len(rws)}) = dist
CertifiesInv == (pc = "done" /\ TrackMatching) => Certifies(FS, FT, rows, bdist)
=============================================================================
