----------------------------- MODULE HeatKernel -----------------------------
(* persim.heat as a state machine (C14), exact in integers: with sigma = 1/(8 ln 2) the kernel of Reininghaus et al. is
       k(F,G) = (ln 2 / pi) * sum_{p in F, q in G} ( 2^-|p-q|^2 - 2^-|p-mirror(q)|^2 ),     mirror(b,d) = (d,b),
   so on lattice diagrams every partial sum is a dyadic rational; the machine carries the numerators over 2^R, R = 2*MaxC^2.
   One action per iteration of the double loop of evalHeatKernel, three kernel evaluations (F,F), (G,G), (F,G) as in heat(), then the
   squared norm k(F,F) + k(G,G) - 2 k(F,G), clamped at zero as coded, whose square root the function returns.
   Property layer (C14): the squared norm is the kernel formula; it is a NON-NEGATIVE real before clamping (so the clamp only absorbs
   rounding), zero between reorderings, symmetric, blind to diagonal points, invariant under diagonal translation, and its square roots
   obey the triangle inequality (decided exactly on the squares).                                                                  *)
EXTENDS HeatDef, FiniteSets, TLC, Json, IOUtils, SequencesExt, FiniteSetsExt        \* HeatDef: MaxC, R, Term, Kern, SqNorm
CONSTANTS MaxPts
\* ---- inputs
Pt == {<<b, d>> : b \in 0..MaxC, d \in 0..MaxC}
Valid(p) == p[1] <= p[2]
RECURSIVE SeqsUpTo(_, _)
SeqsUpTo(S, n) == IF n = 0 THEN {<<>>} ELSE SeqsUpTo(S, n - 1) \cup {Append(s, x) : s \in {t \in SeqsUpTo(S, n - 1) : Len(t) = n - 1}, x \in S}
Dgms == SeqsUpTo({p \in Pt : Valid(p)}, MaxPts)
VARIABLES F, G, pc, phase, i, j, acc, k11, k22, k12, sq
vars == <<F, G, pc, phase, i, j, acc, k11, k22, k12, sq>>
Left == IF phase = 2 THEN G ELSE F          \* phase 1: k(F,F) ; 2: k(G,G) ; 3: k(F,G)
Right == IF phase = 1 THEN F ELSE G
Init == /\ F \in Dgms /\ G \in Dgms
        /\ pc = "loop" /\ phase = 1 /\ i = 1 /\ j = 1 /\ acc = 0 /\ k11 = 0 /\ k22 = 0 /\ k12 = 0 /\ sq = 0
Step == /\ pc = "loop" /\ i <= Len(Left) /\ j <= Len(Right)
        /\ acc' = acc + Term(Left[i], Right[j])
        /\ IF j < Len(Right) THEN j' = j + 1 /\ i' = i ELSE j' = 1 /\ i' = i + 1
        /\ UNCHANGED <<F, G, pc, phase, k11, k22, k12, sq>>
EndKernel == /\ pc = "loop" /\ (i > Len(Left) \/ Len(Right) = 0)
             /\ k11' = (IF phase = 1 THEN acc ELSE k11) /\ k22' = (IF phase = 2 THEN acc ELSE k22) /\ k12' = (IF phase = 3 THEN acc ELSE k12)
             /\ acc' = 0 /\ i' = 1 /\ j' = 1
             /\ phase' = (IF phase < 3 THEN phase + 1 ELSE phase) /\ pc' = (IF phase < 3 THEN "loop" ELSE "norm")
             /\ UNCHANGED <<F, G, sq>>
Norm == /\ pc = "norm"
        /\ sq' = (IF k11 + k22 - 2 * k12 < 0 THEN 0 ELSE k11 + k22 - 2 * k12)          \* max(..., 0.0) as coded
        /\ pc' = "done"
        /\ UNCHANGED <<F, G, phase, i, j, acc, k11, k22, k12>>
Next == Step \/ EndKernel \/ Norm
Spec == Init /\ [][Next]_vars
FairSpec == Spec /\ WF_vars(Next)
\* ---- properties
PartialIsDef == pc = "loop" => acc = KDef(Left, Right, i - 1) + (IF i <= Len(Left) THEN KRow(Left[i], Right, j - 1) ELSE 0)
ResultIsKernelFormula == pc = "done" => sq = SqNorm(F, G)
\* the kernel is positive semi-definite: the squared norm is never negative, so the clamp only ever absorbs rounding noise
SquaredNormNonNegative == pc = "loop" /\ phase = 1 /\ i = 1 /\ j = 1 => SqNorm(F, G) >= 0
Count(s, x) == Cardinality({n \in 1..Len(s) : s[n] = x})
SameBag(a, b) == Len(a) = Len(b) /\ \A n \in 1..Len(a) : Count(a, a[n]) = Count(b, a[n])
InitSt == pc = "loop" /\ phase = 1 /\ i = 1 /\ j = 1
ZeroBetweenReorderings == InitSt /\ SameBag(F, G) => SqNorm(F, G) = 0
Symmetric == InitSt => SqNorm(F, G) = SqNorm(G, F)
DiagonalPointsIgnored == InitSt => \A v \in 0..MaxC : SqNorm(Append(F, <<v, v>>), G) = SqNorm(F, G) /\ SqNorm(F, Append(G, <<v, v>>)) = SqNorm(F, G)
\* translation along the diagonal (the lattice is bounded, so the translate is taken downwards wherever it stays on it)
Shift(X, t) == [n \in 1..Len(X) |-> <<X[n][1] + t, X[n][2] + t>>]
TranslationInvariant == InitSt => \A t \in 1..MaxC : SqNorm(Shift(F, t), Shift(G, t)) = SqNorm(F, G)       \* (Term only reads differences: no bound needed)
\* triangle inequality for the square roots, decided on the squares: sqrt(a) + sqrt(b) >= sqrt(c)  <=>  c - a - b <= 0 \/ 4ab >= (c - a - b)^2
TriangleOnSquares(a, b, c) == c - a - b <= 0 \/ 4 * a * b >= Sq(c - a - b)
Triangle == InitSt => \A H \in Dgms : TriangleOnSquares(SqNorm(F, H), SqNorm(H, G), SqNorm(F, G))
InputsUntouched == [][F' = F /\ G' = G]_vars
Termination == <>(pc = "done")
\* ---- spec -> code: every pair of diagrams with the numerator of the squared norm
DumpInit == /\ JsonSerialize(IOEnv.DUMP_FILE, SetToSeq({[F |-> f, G |-> g, sq |-> SqNorm(f, g), R |-> R] : f \in Dgms, g \in Dgms})) /\ Init
DumpNext == UNCHANGED vars        \* the dump run only needs the initial states: nothing is explored after them
=============================================================================
