------------------------------ MODULE TransformersImager ------------------------------
(* The image transformer's history machine (C18, second estimator): pixel size fixed by the user, ranges learned by fit from the
   bounding box of THAT fit's data (rounded up to whole pixels, padded symmetrically -- the C12 arithmetic), transform maps a
   collection element by element, fit_transform = fit then transform on a private copy.  Lengths in half ticks.
   SkipPersOnRefit = TRUE is a plausible slip (fit updates only the birth range when called again) kept behind a constant to show that
   RefitForgets refutes it.                                                                                                      *)
EXTENDS Integers, Sequences, FiniteSets, TLC
CONSTANTS MaxLen, SkipPersOnRefit
CeilDiv(a, b) == (a + b - 1) \div b
\* data sets: bounding boxes <<bmin, bmax, pmin, pmax>> (even = whole ticks) and the element keys of the collection
Data == { [box |-> <<0, 8, 2, 6>>, els |-> <<1, 2>>], [box |-> <<4, 14, 0, 10>>, els |-> <<3>>], [box |-> <<2, 6, 2, 12>>, els |-> <<4, 5, 6>>] }
PsSet == {2, 6}
VARIABLES ps, br, pr, lastFit, out, lastOp, n
vars == <<ps, br, pr, lastFit, out, lastOp, n>>
Cover(lo, hi, pz) == LET w == CeilDiv(hi - lo, pz) * pz  d == w - (hi - lo) IN <<lo - d \div 2, hi + d \div 2>>
Learned(X, pz) == <<Cover(X.box[1], X.box[2], pz), Cover(X.box[3], X.box[4], pz)>>
Init == /\ ps \in PsSet /\ br = <<0, 2 * ps>> /\ pr = <<0, 2 * ps>> /\ lastFit = <<>> /\ out = <<>> /\ lastOp = "init" /\ n = 0
DoFit(X) == /\ br' = Learned(X, ps)[1]
            /\ pr' = IF SkipPersOnRefit /\ lastFit # <<>> THEN pr ELSE Learned(X, ps)[2]
            /\ lastFit' = X
Fit(X) == DoFit(X) /\ out' = <<>> /\ lastOp' = "fit" /\ UNCHANGED ps
\* one image per element, in order; an image is a function of (ranges, pixel size, element)
Images(X, b, p) == [i \in 1..Len(X.els) |-> <<b, p, ps, X.els[i]>>]
Transform(X) == /\ lastFit # <<>> /\ out' = Images(X, br, pr) /\ lastOp' = "transform" /\ UNCHANGED <<ps, br, pr, lastFit>>
FitTransform(X) == DoFit(X) /\ out' = Images(X, br', pr') /\ lastOp' = "fit_transform" /\ UNCHANGED ps
Next == n < MaxLen /\ n' = n + 1 /\ \E X \in Data : Fit(X) \/ Transform(X) \/ FitTransform(X)
Spec == Init /\ [][Next]_vars
RefitForgets == lastFit # <<>> => <<br, pr>> = Learned(lastFit, ps)
FitTransformIsFitThenTransform == lastOp = "fit_transform" => out = Images(lastFit, Learned(lastFit, ps)[1], Learned(lastFit, ps)[2])
ElementByElementInOrder == lastOp \in {"transform", "fit_transform"} => \A i \in 1..Len(out) : out[i][4] \in {1, 2, 3, 4, 5, 6} /\ (i > 1 => out[i][4] = out[i - 1][4] + 1)
TransformKeepsState == [][lastOp' = "transform" => (br' = br /\ pr' = pr /\ ps' = ps /\ lastFit' = lastFit)]_vars
CoversData == lastFit # <<>> => (br[1] <= lastFit.box[1] /\ lastFit.box[2] <= br[2] /\ pr[1] <= lastFit.box[3] /\ lastFit.box[4] <= pr[2]
                                /\ (br[2] - br[1]) % ps = 0 /\ (pr[2] - pr[1]) % ps = 0)
=============================================================================
