------------------------------ MODULE TraceMGH ------------------------------
(* Batch validation of recorded persim.gromov_hausdorff executions (C05, C17).
   Case fields (small ints, vertices 1-based):
     kind   : "pair" | "matrix"
     pair   : nX, EX, nY, EY  abstract labelled graphs exactly as handed to the code (any container)
              raised (0/1), halfint (0/1: 2*lb and 2*ub are non-negative integers), lb2, ub2
              warn (0/1: "disconnected graph" warning seen), exact (1: decide with the exact distance),
              iso (claimed isomorphism X -> Y or <<>>), cmapXY / cmapYX (maps found by the harness, or <<>>),
              samples [[dir, pi, imgs, dist]] recorded around construct_mapping (dir 1 = X->Y, 2 = Y->X), hook,
              nreplay (how many of them are replayed step by step through GreedyMap; all distortions always enter the ub check),
              others (2*lb of the same labelled pair under other containers; must all equal lb2)
     matrix : L2, U2 integer matrices returned by a collection call                                            *)
EXTENDS MGHCore, Json, IOUtils, TLCExt
Cases == JsonDeserialize(IOEnv.TRACE_FILE)
VARIABLE k

EdgeSet(E) == {<<E[i][1], E[i][2]>> : i \in 1..Len(E)}
ToSeq(x) == [i \in 1..Len(x) |-> x[i]]
Min1(S) == Min(S)

\* algorithm layer: replay of the recorded samples and of the bound computations
SampleOK(DX, DY, s) ==
  LET A == IF s[1] = 1 THEN DX ELSE DY
      Bm == IF s[1] = 1 THEN DY ELSE DX
      r == GreedyMap(A, Bm, ToSeq(s[2]), s[3][1])
  IN r[1] = ToSeq(s[3]) /\ r[2] = s[4]
UbFromSamples(ss) ==
  LET xy == {ss[i][4] : i \in {i \in 1..Len(ss) : ss[i][1] = 1}}
      yx == {ss[i][4] : i \in {i \in 1..Len(ss) : ss[i][1] = 2}}
  IN IF xy = {} \/ yx = {} THEN -1 ELSE Max2(Min1(xy), Min1(yx))

\* For graphs beyond the reach of the in-spec shortest-path computation the harness supplies the distance matrix as a
\* CERTIFICATE which is verified here: zero diagonal, symmetric, 1-Lipschitz along every edge (so D <= true distance) and
\* every non-zero entry has a predecessor at distance one less (so a path of that length exists: D >= true distance).
CertMetric(n, E, D) ==
  LET Nb == TLCEval([j \in 1..n |-> {kk \in 1..n : Adjacent(E, j, kk)}]) IN
  /\ Len(D) = n /\ \A i \in 1..n : Len(D[i]) = n /\ D[i][i] = 0
  /\ \A i, j \in 1..n : D[i][j] = D[j][i] /\ (i # j => D[i][j] >= 1)
  /\ \A i, j \in 1..n : \A kk \in Nb[j] : Abs(D[i][j] - D[i][kk]) <= 1
  /\ \A i, j \in 1..n : i # j => \E kk \in Nb[j] : D[i][kk] = D[i][j] - 1
MatOf(D) == TLCEval([i \in 1..Len(D) |-> TLCEval([j \in 1..Len(D) |-> D[i][j]])])
PairVerdict(c) ==
  LET DXf == IF c.DXc # <<>> THEN MatOf(c.DXc) ELSE DistMatrix(c.nX, EdgeSet(c.EX))
      DYf == IF c.DYc # <<>> THEN MatOf(c.DYc) ELSE DistMatrix(c.nY, EdgeSet(c.EY))
      \* a verified distance-matrix certificate implies connectedness (every entry has a chain of predecessors down to 0)
      conX == c.DXc # <<>> \/ IsConnectedD(DXf)
      conY == c.DYc # <<>> \/ IsConnectedD(DYf)
      \* Normalize: a disconnected graph stands for (one of) its largest component(s)
      candX == IF conX THEN {DXf} ELSE {SubMatrix(DXf, C) : C \in LargestComponents(DXf)}
      candY == IF conY THEN {DYf} ELSE {SubMatrix(DYf, C) : C \in LargestComponents(DYf)}
      disc == ~conX \/ ~conY
  IN IF (c.DXc # <<>> /\ ~CertMetric(c.nX, EdgeSet(c.EX), c.DXc)) \/ (c.DYc # <<>> /\ ~CertMetric(c.nY, EdgeSet(c.EY), c.DYc))
        THEN <<"machinery", "bad-distance-matrix-certificate", "n/a">>
     ELSE IF c.raised = 1 THEN <<"fail", IF disc THEN "C17-disconnected-raises" ELSE "raises-on-connected-input", "n/a">>
     \* (for C05 the bracket of the graphs AS GIVEN is evaluated first: a connected graph that draws the "disconnected" warning was
     \*  replaced by something else, and what C05 asks is whether the returned pair still brackets the distance of the inputs)
     ELSE IF c.mine # "C05" /\ (c.warn = 1) # disc THEN <<"fail", IF disc THEN "C17-no-warning-for-disconnected" ELSE "C17-spurious-warning", "n/a">>
     ELSE IF c.halfint = 0 THEN <<"fail", "C05-not-half-integers", "n/a">>
     ELSE IF \E i \in 1..Len(c.others) : c.others[i] # c.lb2 THEN <<"fail", "C17-lower-bound-depends-on-container", "n/a">>
     ELSE
       LET good(DX, DY) ==
             /\ c.lb2 <= c.ub2
             \* at any size: no map can have distortion below the difference of the diameters (and non-isometric cardinalities cost 1/2), so an
             \* upper bound below that is not the distortion of a real map
             /\ c.ub2 >= TrivialLb(DX, DY)
             \* against a one-point space the distance has the closed form diam (PointLemma, model-checked in MGH.tla)
             /\ (c.exact = 1 => (LET t == IF N(DY) = 1 THEN Diam(DX) ELSE IF N(DX) = 1 THEN Diam(DY) ELSE True2(DX, DY)
                                 IN c.lb2 <= t /\ t <= c.ub2))
             /\ (c.cmapXY # <<>> /\ c.cmapYX # <<>> /\ conX /\ conY) =>
                    c.lb2 <= Max2(Dis(DX, DY, ToSeq(c.cmapXY)), Dis(DY, DX, ToSeq(c.cmapYX)))
             /\ (c.iso # <<>> /\ conX /\ conY /\ IsIsomorphism(DX, DY, ToSeq(c.iso))) => c.lb2 = 0
           okpairs == {p \in candX \X candY : good(p[1], p[2])}
       IN IF okpairs = {} THEN <<"fail", IF disc THEN "C17-not-a-bracket-of-largest-component" ELSE "not-a-bracket", "n/a">>
          ELSE IF c.iso # <<>> /\ conX /\ conY /\ ~IsIsomorphism(DXf, DYf, ToSeq(c.iso)) THEN <<"machinery", "bad-isomorphism-certificate", "n/a">>
          ELSE IF (c.warn = 1) # disc THEN <<"fail", IF disc THEN "C17-no-warning-for-disconnected" ELSE "C17-spurious-warning", "n/a">>
          ELSE IF c.hook = 0 \/ disc THEN <<"ok", "", "nohook">>
          ELSE LET DX == DXf DY == DYf IN
               IF c.algo = 1 /\ FindLb(DX, DY) # c.lb2 THEN <<"divergence", "lb-differs-from-algorithm-layer", FindLb(DX, DY)>>
               ELSE IF \E i \in 1..Min2(c.nreplay, Len(c.samples)) : ~SampleOK(DX, DY, c.samples[i]) THEN <<"divergence", "greedy-map-differs", 0>>
               ELSE IF UbFromSamples(c.samples) # c.ub2 THEN <<"divergence", "ub-not-max-of-min-of-samples", UbFromSamples(c.samples)>>
               ELSE <<"ok", "", "alg-ok">>

MatrixVerdict(c) ==
  LET n == Len(c.L2) IN
  IF \E i \in 1..n : c.L2[i][i] # 0 \/ c.U2[i][i] # 0 THEN <<"fail", "C17-collection-diagonal-not-zero", "n/a">>
  ELSE IF \E i, j \in 1..n : c.L2[i][j] # c.L2[j][i] \/ c.U2[i][j] # c.U2[j][i] THEN <<"fail", "C17-collection-not-symmetric", "n/a">>
  ELSE <<"ok", "", "n/a">>

Verdict(c) == IF c.kind = "matrix" THEN MatrixVerdict(c) ELSE PairVerdict(c)
TInit == k = 1
TNext == /\ k <= Len(Cases)
         /\ PrintT(<<"V", k>> \o Verdict(Cases[k]))
         /\ k' = k + 1
AllConsumed == TLCGet("stats").diameter = Len(Cases) + 1
=============================================================================
