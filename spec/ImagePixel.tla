---------------------------- MODULE ImagePixel ----------------------------
(* Design lemma behind persistence-image pixels (C04): the code obtains the kernel mass of a pixel from the kernel's CDF F at the
   four corners by inclusion-exclusion, F(x1,y1) - F(x0,y1) - F(x1,y0) + F(x0,y0).  For the uniform box kernel (whose CDF is
   transcribed here as coded: clamp(x - (mu - w/2), 0, w) * clamp(y - (mu - h/2), 0, h) / (w h)) this must equal the definitional
   mass = area of (pixel intersected with box) / area of box, for EVERY placement of the box relative to the pixel (inside,
   straddling a border, outside) -- and pixel masses over a grid must add up to the mass of the whole imaged region.
   Coordinates in half ticks so that mu +- w/2 is integral; masses as integer numerators over the common denominator w*h.      *)
EXTENDS Integers, FiniteSets, TLC
CONSTANTS MaxC, MaxW
Clamp(x, lo, hi) == IF x < lo THEN lo ELSE IF x > hi THEN hi ELSE x
Max2(a, b) == IF a >= b THEN a ELSE b
Min2(a, b) == IF a <= b THEN a ELSE b
\* algorithm layer: the CDF as coded (numerator over w*h), coordinates doubled
Cdf(x, y, mx, my, w, h) == Clamp(x - (mx - w), 0, 2 * w) * Clamp(y - (my - h), 0, 2 * h)          \* = 4 * w h F
PixelByCdf(x0, x1, y0, y1, mx, my, w, h) == Cdf(x1, y1, mx, my, w, h) - Cdf(x0, y1, mx, my, w, h) - Cdf(x1, y0, mx, my, w, h) + Cdf(x0, y0, mx, my, w, h)
\* property layer: overlap of [x0,x1]x[y0,y1] with the box [mx-w, mx+w]x[my-h, my+h]   (all doubled)
Ov(a0, a1, c, r) == Max2(0, Min2(a1, c + r) - Max2(a0, c - r))
MassDef(x0, x1, y0, y1, mx, my, w, h) == Ov(x0, x1, mx, w) * Ov(y0, y1, my, h)
VARIABLES x0, x1, y0, y1, mx, my, w, h
vars == <<x0, x1, y0, y1, mx, my, w, h>>
C == (-MaxC)..MaxC
Init == /\ x0 \in C /\ x1 \in C /\ x0 < x1 /\ y0 \in C /\ y1 \in C /\ y0 < y1
        /\ mx \in C /\ my \in C /\ w \in 1..MaxW /\ h \in 1..MaxW
Next == UNCHANGED vars
Spec == Init /\ [][Next]_vars
InclusionExclusionIsMass == PixelByCdf(x0, x1, y0, y1, mx, my, w, h) = MassDef(x0, x1, y0, y1, mx, my, w, h)
\* splitting a pixel at any interior abscissa adds up (so a grid of pixels tiles the mass of the imaged region)
Additive == \A xm \in C : (x0 < xm /\ xm < x1) =>
              PixelByCdf(x0, x1, y0, y1, mx, my, w, h) = PixelByCdf(x0, xm, y0, y1, mx, my, w, h) + PixelByCdf(xm, x1, y0, y1, mx, my, w, h)
NonNegativeAtMostOne == PixelByCdf(x0, x1, y0, y1, mx, my, w, h) >= 0 /\ PixelByCdf(x0, x1, y0, y1, mx, my, w, h) <= 4 * w * h
=============================================================================
