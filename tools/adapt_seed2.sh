#!/bin/sh
# usage: tools/adapt_seed2.sh <sid> <fix-commit> <file>  -- re-express a seed on the repaired tree: put <file> back to its state before the repair,
# apply the seed there, re-apply the repair on top (patch with fuzz), regenerate patch.diff against HEAD, re-confirm
sid=$1; fix=$2; file=$3; d=/verif/seeded/$sid; wt=/tmp/adapt_$sid
rm -rf "$wt"; git -C /repo worktree add -q --detach "$wt" HEAD || exit 2
cd "$wt" || exit 2
mkdir -p seeded_out; cp "$d"/demo.py seeded_out/demo.py; for f in "$d"/_*.py; do [ -f "$f" ] && cp "$f" seeded_out/; done
PYTHONPATH=$wt /venv/bin/python -W ignore seeded_out/demo.py >/dev/null 2>&1; rc_clean=$?
git checkout -q "$fix~1" -- "$file" && git reset -q
if git apply "$d/patch.diff" 2>/tmp/adapt_$sid.log && git diff "$fix~1" "$fix" -- "$file" | patch -p1 -F3 --no-backup-if-mismatch >>/tmp/adapt_$sid.log 2>&1; then
  git diff HEAD -- persim > /tmp/adapt_$sid.diff
  PYTHONPATH=$wt /venv/bin/python -W ignore seeded_out/demo.py >/dev/null 2>&1; rc_mut=$?
  PYTHONPATH=$wt /venv/bin/python -m pytest -q -p no:cacheprovider --timeout=900 -x >/tmp/adapt_$sid.tests 2>&1; rc_t=$?
  echo "$sid clean=$rc_clean mut=$rc_mut tests=$rc_t [$(tail -1 /tmp/adapt_$sid.tests)]"
  if [ $rc_clean = 0 ] && [ $rc_mut = 1 ] && [ $rc_t = 0 ]; then
    head=$(git -C /repo rev-parse --short HEAD)
    cp "$d/patch.diff" "$d/patch_before_$head.diff"; cp /tmp/adapt_$sid.diff "$d/patch.diff"; echo "  ADAPTED"
  else echo "  NOT ADAPTED"; fi
else echo "$sid failed: $(tail -3 /tmp/adapt_$sid.log | tr '\n' ' ')"; fi
cd /; git -C /repo worktree remove --force "$wt"
