#!/bin/sh
# usage: tools/try_patch.sh <patch.diff> <pid> [<pid> ...]   -- applies the patch to /repo, runs quick checks, reverts.
patch="$1"; shift
cd /repo || exit 2
git diff --quiet || { echo "/repo not clean"; exit 2; }
git apply "$patch" || { echo "patch does not apply"; exit 2; }
cd /verif
for pid in "$@"; do
  out=$(VERIF_NO_EVIDENCE=1 ./check "$pid" --tier "${TIER:-quick}" 2>&1); rc=$?
  echo "== $pid rc=$rc"; echo "$out" | grep -E "^VIOLATION|clause:|KNOWN-FINDING|MACHINERY|tier=" | cut -c1-400 | head -12
done
git -C /repo checkout -- .
