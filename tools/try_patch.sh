#!/bin/sh
# usage: tools/try_patch.sh <patch.diff> <pid> [<pid> ...]
# Applies the patch in a SCRATCH worktree of /repo (never in /repo itself: background runs use /repo), runs the quick checks
# against it through VERIF_REPO, removes the worktree.
patch="$1"; shift
wt=/tmp/trypatch_$$
git -C /repo worktree add -q --detach "$wt" HEAD || exit 2
( cd "$wt" && git apply "$patch" ) || { echo "patch does not apply"; git -C /repo worktree remove --force "$wt"; exit 2; }
cd /verif
for pid in "$@"; do
  out=$(VERIF_REPO="$wt" VERIF_NO_EVIDENCE=1 VERIF_SELFTEST=0 ./check "$pid" --tier "${TIER:-quick}" 2>&1); rc=$?
  echo "== $pid rc=$rc"; echo "$out" | grep -E "^VIOLATION|clause:|KNOWN-FINDING|MACHINERY|tier=" | cut -c1-400 | head -12
done
git -C /repo worktree remove --force "$wt"
