#!/usr/bin/env python3
"""Writes the brief handed to each seeding sub-agent (property text + scratch worktree + ideas already used, nothing else from /verif).
usage: tools/seed_prompts.py <dir>   -- expects worktrees <dir>/C01..C20, writes <dir>/<id>.full.txt"""
import json, sys
D = sys.argv[1]
AVOID = {
"C01": "a 1e-12 slack in the threshold comparison; a finite initial best value; cancelling points shared by both diagrams; a module-level scratch cost matrix reused between calls; a finite 'forbidden' sentinel computed from the cross block only; input-normalisation changes at the top of bottleneck(); a wrong slice for the diagonal/diagonal block of the cost matrix; skipping ahead in the binary search by the matching deficiency",
"C02": "an np.allclose fast path; a transposed diagonal block; sklearn pairwise_distances instead of cdist; a finite sentinel instead of inf; an empty-diagram fast path placed before the second diagram's infinite-death filter; a module-level buffer cache keyed by M+N; pruning cross pairings before the 45-degree rotation; a warn-once registry for the infinite-death warnings",
"C03": "re-insertion tie handling via A[ind:]; np.allclose duplicate detection; a filter dropping negative births; an off-by-one scan-resume pointer for touching bars; dropping empty diagrams before indexing by hom_deg; a plain lexicographic initial sort; rounding the selected diagram to 8 decimals; not re-queueing a residual bar equal to a waiting one",
"C04": "np.isclose in the isotropic fast-path test; de-duplicating rows with multiplicities; hoisting marginal CDFs in bvn_cdf for negative correlation; linear_ramp keeping an integer dtype; skipping pairs whose weight is not positive; not forwarding skew in the n_jobs branch; range setters that rebuild the mesh only when the resolution changes; dividing by the variance instead of the standard deviation in bvn_cdf",
"C05": "dropping leftover capacity in check_assignment_feasibility; early return in find_ub for equal sizes; keeping only maximal rows in the Theorem-B check; mirroring lower bounds into the upper-bound matrix; frequency tables stored in the distance matrix's dtype; a label-dependent 'not isometric' trivial bound; keeping only the upper triangle of the adjacency; sizing the frequency tables by the wrong diameter",
"C06": "detecting diagonal-diagonal rows by cost; a row filter dropping index-0 diagonal matches; comparing the column index against M instead of N; no placeholder for diagrams emptied by the inf filter; removing birth==death points before matching in wasserstein; an off-by-one in the bottleneck matching extraction loop; sklearn euclidean_distances for the cross block; reading D[i, j] after re-indexing in the bottleneck matching loop",
"C07": "cancelling common points in bottleneck; a finite sentinel instead of inf in wasserstein; a sorted-columns equality shortcut; a per-size workspace reused between calls; sklearn pairwise_distances for the cross block; stripping near-diagonal points with np.isclose; merging near-duplicate candidate thresholds with an absolute tolerance; an L2 instead of L1 norm in an empty-diagram fast path",
"C08": "snapping with searchsorted; computing grid indices by int((b-start)/step); `start or min` defaults; skipping bars narrower than two steps; rounded float keys in the grid dictionary; a copy-paste slip of start/stop in the transformer constructor; measuring the rising ramp from the un-snapped birth; keeping the snapping work matrix in the diagram's dtype",
"C09": "a sign dropped in the coincident-breakpoint branch of sum_slopes; in-place accumulation in approx __add__; a signed merge in exact __sub__; snap_pl keeping the values dtype; moving compute_landscape() calls so that a lazily built right operand is never computed; rejecting tiny non-zero divisors; dropping identically-zero depths in the approx constructor; losing hom_deg in exact __truediv__",
"C10": "a duplicated clause in the sign-crossing test; sup norm over depth 0 only; np.isclose in the flat-segment test; stopping the depth loop at the first zero depth; values_to_pairs keeping an integer dtype; p_norm computing the landscape only on the sup-norm path; in-place accumulation in approx __add__; a trapezoid shortcut for p == 1",
"C11": "np.unique on the diagram; dropping the private copy before the skew; a stale cdf cache keyed by the first birth; not forwarding skew in the parallel branch; linear_ramp using zeros_like(pers) (integer truncation); mis-restoring the order / dropping arguments in the parallel branch; in-place division of the mesh in the isotropic fast path; an operator-precedence slip in the Genz branch of bvn_cdf",
"C12": "an early return in _create_mesh; floor division in the pixel count; np.isclose snapping of the pixel count; the pixel_size setter re-padding the requested ranges; padding computed with a float modulo; fit_transform not forwarding skew to fit; max(..., initial=0.0) in fit; a transposed zero image for empty diagrams inside collections",
"C13": "a signed xmy in the Genz branch; np.isclose in the gaussian dispatch; a wrong Gauss-Legendre abscissa digit; width/height mixed up in the uniform kernel; sbvn_cdf standardising its inputs in place; moving the non-negativity clamp in the Genz tail; a wrong index in hoisted reciprocal standard deviations of sbvn_cdf; an lru_cache on the quadrature rule combined with in-place weight scaling",
"C14": "an np.allclose fast path; np.unique on the points; a 3-sigma truncation; expanding |p-q|^2 as |p|^2+|q|^2-2pq; memoising the self kernel by object identity; partial sums stored in the diagram's dtype; exp(-b)*expm1(b-a) overflow; a finite bound instead of inf in wasserstein's augmented matrix",
"C15": "a module-level cache of directions; a sort(axis=0) equality shortcut; directions from a float np.arange; an np.isclose pre-filter of diagonal points; an in-place centring preamble; a module-level diagonal-projection helper with a subtle sign/shape slip; casting diagonal projections to the diagram's dtype; 1e10 instead of inf in wasserstein's augmented matrix",
"C16": "in-place substitution of infinities; np.all(l) > 0; hoisting the normalisation out of the per-diagram loop; np.minimum as the infinity substitution; `if val_inf:` truthiness; clamping the total length with max(sum, 1e-10); np.unique on the bars; letting val_inf override keep_inf=False",
"C17": "an unsigned dtype bound; copying lower bounds into the upper-bound matrix; picking the largest component by size equality; reducing dense inputs to the upper triangle; a label-dependent isometry test in find_lb; restricting to the largest component before shortest paths; isinstance(AG, spmatrix) instead of issparse; dropping left-over capacity in check_assignment_feasibility",
"C18": "in-place division of the fitted mesh; `if not self.start`; keeping the old range on a degenerate axis in fit; nesting the fixed-stop test under the fixed-start test; applying the dispatch permutation twice in the parallel transform; fit_transform not forwarding skew; unwrapping results by len(...) == 1 instead of the singular flag; transform writing start/stop back into the estimator",
"C19": "np.asarray instead of a copy in plot_diagrams; random.randrange in construct_mapping; np.nan_to_num(copy=False) in persistent_entropy; in-place accumulation in approx __add__; shortest_path(overwrite=True) on the caller's array; in-place updates in the isotropic fast path of _transform; linear_ramp with zeros_like(pers); default parameter dicts shared between imager instances",
"C20": "np.asarray instead of a copy in plot_diagrams; idx/i confusion in the highlight test; the diagonal foot of (-1, j) rows taken from the first diagram; lifetime conversion moved into the scatter loop; axis range from rows with finite death only; a mix-up in the plot_landscape_simple dispatcher; the infinity-line position computed before the lifetime range reset; default legend labels numbered after the plot_only selection",
}
T = '''You are helping to evaluate a verification framework for the Python library scikit-tda/persim (persistence-diagram tools: bottleneck/Wasserstein/mGH distances, persistence images, landscapes, kernels, plotting). Your job is to play the role of a realistic, subtle regression: produce changes to persim's source that BREAK the property below while the library still imports and the existing test suite still passes.

Your private scratch git worktree of the repository is at: WORKTREE
Work ONLY inside that directory (never touch /repo or /verif, never read /verif). To make Python import the worktree copy instead of the installed one, always run with:  cd WORKTREE && PYTHONPATH=WORKTREE /venv/bin/python ...
The existing test suite is run with: cd WORKTREE && PYTHONPATH=WORKTREE /venv/bin/python -m pytest -q -p no:cacheprovider --timeout=900 -x   (108 tests, ~30 s; they must all still pass with your change applied).
There is no network. NEVER use `git stash` (the stash is shared between worktrees and other people are working in sibling worktrees): to go back to a clean tree use `git diff > file; git checkout -- .` and `git apply file` to restore. Files under persim/_verif.py and `if _verif.enabled:` lines are inert instrumentation; leave them alone.

THE PROPERTY
------------
PROPERTY_TEXT

WHAT TO PRODUCE
---------------
Produce TWO different, independent changes (call them A and B), each a small source edit to persim (a few lines, the kind of slip a maintainer could plausibly make in a refactor, optimisation, clean-up, dependency-API migration or "fix"). Each must:
 1. break the property above on the real code (for some inputs/configurations/histories), and
 2. leave all 108 existing tests passing, and
 3. need something SPECIFIC to manifest -- a particular kind of input (ties, repeated points, off-grid values, a particular size, shape, dtype or sign, a branch threshold, extreme scale, an unusual but legal container or option), a particular multi-step sequence of calls, a particular configuration/seed, or two cooperating sites that each look fine alone. NOT something that every ordinary call exposes at once.
Four earlier rounds already explored these ideas, so do NOT use them or close variants of them: AVOID_TEXT. Look for DIFFERENT code sites and DIFFERENT mechanisms: read the whole call path of the property (helpers, shared utilities, constructors, option handling, input normalisation, the code that feeds the anchored function and the code that post-processes its result), and prefer a site the earlier ideas did not touch. At least one of A and B should live outside the function(s) named in the code anchors if the call path allows it. A and B should also differ from each other.

For each change write, inside WORKTREE/seeded_out/ (create it):
 - A.diff / B.diff : the patch, produced with `git diff` from a clean tree containing only that one change (so it applies with `git apply` to a clean checkout of the same commit). Reset the worktree (git checkout -- .) between A and B so each diff is independent.
 - demo_A.py / demo_B.py : a small standalone program (run as: cd WORKTREE && PYTHONPATH=WORKTREE /venv/bin/python seeded_out/demo_A.py) that exits 0 and prints PASS on the unmodified code and exits 1 and prints FAIL on the code with the change applied. It must demonstrate the property violation directly (compare with an independently computed expected value / relation stated by the property), not merely detect the textual change.
 - notes.md : for each change, 3-6 lines: what was changed, why the property breaks, exactly what is needed for it to manifest, and confirmation that you ran (a) the full test suite with the change applied (all passed), (b) the demo with the change (FAIL) and without (PASS).

At the end leave the worktree's tracked files clean (git checkout -- .) with only seeded_out/ as untracked content. Your final answer should be a short summary: for A and B, one line on the change and one line on what it needs to manifest, and the test-suite / demo results you observed.
'''
for l in open('/verif/properties.jsonl'):
    p = json.loads(l)
    txt = f"""Property {p['id']}: {p['title']}

Statement: {p['statement']}

Quantified over: {', '.join(p['quantifier']['over'])} -- {p['quantifier']['text']}

Why the existing tests cannot settle it: {p['why_tests_cant']}

Code anchors: files {p['anchors']['files']}; mechanisms: {'; '.join(m['name']+' ('+m['where']+')' for m in p['anchors']['mechanism'])}
"""
    open(f"{D}/{p['id']}.full.txt", 'w').write(T.replace('WORKTREE', f"{D}/{p['id']}").replace('PROPERTY_TEXT', txt).replace('AVOID_TEXT', AVOID[p['id']]))
print('ok')
