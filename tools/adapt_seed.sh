#!/bin/sh
# usage: tools/adapt_seed.sh C14-B ...  -- re-express a kept seed whose patch no longer applies after a repair of /repo: 3-way apply in a scratch
# worktree, regenerate patch.diff against HEAD (the old one is kept as patch_before_<head>.diff), re-confirm (demo clean / demo with patch / suite)
for sid in "$@"; do
  d=/verif/seeded/$sid; wt=/tmp/adapt_$sid
  rm -rf "$wt"; git -C /repo worktree add -q --detach "$wt" HEAD || exit 2
  cd "$wt" || exit 2
  mkdir -p seeded_out; cp "$d"/demo.py seeded_out/demo.py; for f in "$d"/_*.py; do [ -f "$f" ] && cp "$f" seeded_out/; done
  PYTHONPATH=$wt /venv/bin/python -W ignore seeded_out/demo.py >/dev/null 2>&1; rc_clean=$?
  ok=0
  if git apply -3 "$d/patch.diff" >/tmp/adapt_$sid.log 2>&1 && ! git diff --name-only --diff-filter=U | grep -q .; then ok=1
  else   # context lines changed by the repair: GNU patch with fuzz
    git checkout -q -- . ; git reset -q
    if patch -p1 -F3 --no-backup-if-mismatch < "$d/patch.diff" >/tmp/adapt_$sid.log 2>&1; then ok=1; fi
  fi
  if [ $ok = 1 ]; then
    git reset -q; git diff -- persim > /tmp/adapt_$sid.diff
    PYTHONPATH=$wt /venv/bin/python -W ignore seeded_out/demo.py >/dev/null 2>&1; rc_mut=$?
    PYTHONPATH=$wt /venv/bin/python -m pytest -q -p no:cacheprovider --timeout=900 -x >/tmp/adapt_$sid.tests 2>&1; rc_t=$?
    echo "$sid clean=$rc_clean mut=$rc_mut tests=$rc_t [$(tail -1 /tmp/adapt_$sid.tests)]"
    if [ $rc_clean = 0 ] && [ $rc_mut = 1 ] && [ $rc_t = 0 ]; then
      head=$(git -C /repo rev-parse --short HEAD)
      cp "$d/patch.diff" "$d/patch_before_$head.diff"; cp /tmp/adapt_$sid.diff "$d/patch.diff"; echo "  ADAPTED"
    else echo "  NOT ADAPTED (kept as is)"; fi
  else
    echo "$sid 3-way apply failed: $(head -3 /tmp/adapt_$sid.log | tr '\n' ' ')"
  fi
  cd /; git -C /repo worktree remove --force "$wt"
done
