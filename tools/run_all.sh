#!/bin/sh
# usage: tools/run_all.sh [quick|thorough] [ids...] -- runs registered checks sequentially, prints one summary line each;
# the complete output of every check is kept under $VERIF_LOGDIR (default /tmp/verif_logs) for diagnosis only
tier=${1:-quick}; [ $# -gt 0 ] && shift
cd "$(dirname "$0")/.." || exit 2
logs=${VERIF_LOGDIR:-/tmp/verif_logs}; mkdir -p "$logs"
ids=${*:-C01 C02 C03 C04 C05 C06 C07 C08 C09 C10 C11 C12 C13 C14 C15 C16 C17 C18 C19 C20}
for id in $ids; do
  ./check $id --tier $tier > "$logs/${id}_$tier.out" 2>&1; rc=$?
  grep -E "^VIOLATION|MACHINERY|^Traceback|Error" "$logs/${id}_$tier.out" | head -5
  tail -1 "$logs/${id}_$tier.out"
done
