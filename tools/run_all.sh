#!/bin/sh
# usage: tools/run_all.sh [quick|thorough]  -- runs every registered check sequentially, prints one summary line each
tier=${1:-quick}
cd "$(dirname "$0")/.." || exit 2
for id in C01 C02 C03 C04 C05 C06 C07 C08 C09 C10 C11 C12 C13 C14 C15 C16 C17 C18 C19 C20; do
  out=$(./check $id --tier $tier 2>&1); rc=$?
  echo "$out" | grep -E "^VIOLATION|MACHINERY" | head -3
  echo "$out" | tail -1
done
