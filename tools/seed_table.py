#!/usr/bin/env python3
"""Markdown table of one seeded round for DESIGN.md from seeded/<id>/notes_from_author.md and seeded/MATRIX.json.  usage: tools/seed_table.py M N"""
import json, os, re, sys
ROOT = os.path.dirname(os.path.dirname(os.path.abspath(__file__)))
M = json.load(open(os.path.join(ROOT, "seeded", "MATRIX.json")))


def section(notes, letter):
    # the author's notes call the two changes A and B (first and second of the round)
    parts = re.split(r"^## ", notes, flags=re.M)[1:]
    if not parts:
        return "", ""
    want = 0 if letter in "ACEGIKMOQS" else 1
    p = parts[min(want, len(parts) - 1)]
    title = p.splitlines()[0]
    title = re.sub(r"^[A-Z]\s*[-:—]+\s*", "", title).strip()
    m = re.search(r"^- \**Needs\**:?\s*(.*)$", p, flags=re.M)
    return title, (m.group(1) if m else "")


def short(s, n):
    s = s.replace("|", "/").replace("`", "")
    return s if len(s) <= n else s[:n].rsplit(" ", 1)[0] + " ..."


print("| seeded change | what it is: what it needs to manifest (author's words, abridged) | reported by (quick tier, seed 0) | clause |")
print("|---|---|---|---|")
for sid in sorted(M):
    if sid.split("-")[1] not in sys.argv[1:]:
        continue
    notes = open(os.path.join(ROOT, "seeded", sid, "notes_from_author.md")).read()
    t, needs = section(notes, sid.split("-")[1])
    res = M[sid]
    caught = [k for k, v in res.items() if isinstance(v, dict) and v.get("rc") == 1]
    cl = "; ".join(c for k in caught for c in res[k]["clauses"][:2])
    print("| %s | %s: %s | %s | %s |" % (sid, short(t, 110), short(needs, 150), ", ".join(caught) or ("ERROR " + str(res)[:80]), short(cl, 120)))
