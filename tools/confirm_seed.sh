#!/bin/sh
# usage: [SEEDDIR=/tmp/seed2] tools/confirm_seed.sh C06 A [C]  (third argument: name to keep it under)   -- independently confirms a seeded change from /tmp/seed/<pid>/seeded_out in a fresh scratch worktree
pid="$1"; v="$2"; name="${3:-$2}"; src=${SEEDDIR:-/tmp/seed2}/$pid/seeded_out; wt=/tmp/seedconfirm_$pid$v
dst=/verif/seeded/$pid-$name
rm -rf "$wt"; git -C /repo worktree add -q --detach "$wt" HEAD || exit 2
cd "$wt" || exit 2
mkdir -p seeded_out && cp "$src"/*.py seeded_out/ 2>/dev/null
run() { PYTHONPATH=$wt /venv/bin/python -W ignore::SyntaxWarning -W ignore::DeprecationWarning "$@"; }
run seeded_out/demo_$v.py >/tmp/sc_$pid$v.clean 2>&1; rc_clean=$?
git apply "$src/$v.diff" || { echo "APPLY FAILED"; git -C /repo worktree remove --force "$wt"; exit 2; }
run seeded_out/demo_$v.py >/tmp/sc_$pid$v.mut 2>&1; rc_mut=$?
PYTHONPATH=$wt /venv/bin/python -m pytest -q -p no:cacheprovider --timeout=900 -x >/tmp/sc_$pid$v.tests 2>&1; rc_tests=$?
tests=$(tail -1 /tmp/sc_$pid$v.tests)
cd /; git -C /repo worktree remove --force "$wt"
echo "$pid-$name demo_clean_rc=$rc_clean demo_mut_rc=$rc_mut tests_rc=$rc_tests [$tests]"
if [ $rc_clean = 0 ] && [ $rc_mut = 1 ] && [ $rc_tests = 0 ]; then
  mkdir -p "$dst"; cp "$src/$v.diff" "$dst/patch.diff"; cp "$src/demo_$v.py" "$dst/demo.py"
  for f in "$src"/_*.py; do [ -f "$f" ] && cp "$f" "$dst/"; done
  cp "$src/notes.md" "$dst/notes_from_author.md"
  cat > "$dst/meta.json" <<EOM
{"property": "$pid", "variant": "$name", "confirmed": {"demo_on_clean_tree_rc": $rc_clean, "demo_with_patch_rc": $rc_mut, "test_suite_with_patch": "$tests"},
 "ran": "tools/confirm_seed.sh $pid $v $name (fresh scratch worktree of /repo HEAD: demo clean, git apply patch.diff, demo, full pytest)", "needs": "see notes_from_author.md", "detected_by": "pending"}
EOM
  echo KEPT
else echo REJECTED; fi
rm -f /tmp/sc_$pid$v.*
