#!/bin/sh
# for each seeded change: produce a replay file on the patched tree, then replay it on the patched tree (must reproduce: rc 1)
# and on the clean tree (must pass: rc 0)
cd /verif
for sid in "$@"; do
  pid=${sid%%-*}
  wt=/tmp/rs_$sid
  git -C /repo worktree add -q --detach "$wt" HEAD || continue
  ( cd "$wt" && git apply /verif/seeded/$sid/patch.diff ) || { git -C /repo worktree remove --force "$wt"; echo "$sid: patch does not apply"; continue; }
  rm -f replays/${pid}_quick_0_*.json
  VERIF_REPO="$wt" VERIF_NO_EVIDENCE=1 VERIF_SELFTEST=0 ./check $pid >/dev/null 2>&1
  f=$(ls replays/${pid}_quick_0_0.json 2>/dev/null)
  if [ -z "$f" ]; then echo "$sid: no replay file"; else
    VERIF_REPO="$wt" VERIF_SELFTEST=0 ./check $pid --replay $f >/dev/null 2>&1; a=$?
    VERIF_SELFTEST=0 ./check $pid --replay $f >/dev/null 2>&1; b=$?
    echo "$sid: replay on patched rc=$a (want 1), on clean rc=$b (want 0)"
  fi
  git -C /repo worktree remove --force "$wt"
done
