#!/usr/bin/env python3
"""Run every kept seeded change against the quick check of its property (in scratch worktrees, never in /repo) and record
which check caught it in seeded/<id>/meta.json; prints a markdown table.  usage: tools/seed_matrix.py [ids...]"""
import json, os, subprocess, sys, concurrent.futures as cf
ROOT = os.path.dirname(os.path.dirname(os.path.abspath(__file__)))
EXTRA = {"C15-J": ["C07", "C02"], "C14-P": ["C02", "C19"], "C12-P": ["C04", "C18"], "C05-M": ["C17", "C19"], "C07-A": ["C01"], "C07-B": ["C02"], "C15-A": ["C19"], "C16-A": ["C19"], "C11-B": ["C19"], "C09-B": ["C19"]}


def one(sid):
    d = os.path.join(ROOT, "seeded", sid)
    pid = sid.split("-")[0]
    wt = "/tmp/sm_" + sid
    subprocess.run(["git", "-C", "/repo", "worktree", "remove", "--force", wt], capture_output=True)
    subprocess.run(["git", "-C", "/repo", "worktree", "add", "-q", "--detach", wt, "HEAD"], check=True)
    res = {}
    try:
        a = subprocess.run(["git", "-C", wt, "apply", os.path.join(d, "patch.diff")], capture_output=True, text=True)
        if a.returncode != 0:
            return sid, {"error": "patch does not apply to current HEAD: " + a.stderr[:200]}
        for p in [pid] + EXTRA.get(sid, []):
            env = dict(os.environ, VERIF_REPO=wt, VERIF_NO_EVIDENCE="1", VERIF_SEED=os.environ.get("VERIF_SEED", "0"))
            r = subprocess.run(["./check", p, "--tier", "quick"], cwd=ROOT, env=env, capture_output=True, text=True)
            clauses = sorted({l.split('"clause": ')[1].split(",")[0].strip('"} ') for l in r.stdout.splitlines() if '"clause": ' in l})
            res[p] = {"rc": r.returncode, "clauses": clauses[:4]}
    finally:
        subprocess.run(["git", "-C", "/repo", "worktree", "remove", "--force", wt], capture_output=True)
    return sid, res


def main():
    ids = sys.argv[1:] or sorted(x for x in os.listdir(os.path.join(ROOT, "seeded")) if os.path.isdir(os.path.join(ROOT, "seeded", x)) and not x.startswith("_"))
    mpath = os.path.join(ROOT, "seeded", "MATRIX.json")
    out = json.load(open(mpath)) if os.path.exists(mpath) and sys.argv[1:] else {}
    with cf.ThreadPoolExecutor(3) as ex:
        for sid, res in ex.map(one, ids):
            out[sid] = res
            mp = os.path.join(ROOT, "seeded", sid, "meta.json")
            m = json.load(open(mp))
            m["detected_by"] = {k: v for k, v in res.items()} if "error" not in res else res
            json.dump(m, open(mp, "w"), indent=1)
            caught = [k for k, v in res.items() if isinstance(v, dict) and v.get("rc") == 1]
            print("| %s | %s | %s |" % (sid, ", ".join(caught) or "MISSED", "; ".join(c for k in caught for c in res[k]["clauses"][:2])), flush=True)
    json.dump(out, open(os.path.join(ROOT, "seeded", "MATRIX.json"), "w"), indent=1)


main()
