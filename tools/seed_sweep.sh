#!/bin/sh
# usage: tools/seed_sweep.sh <seed> [<seed> ...]  -- quick tier of every check under several VERIF_SEEDs (no evidence rewritten)
cd "$(dirname "$0")/.." || exit 2
for s in "$@"; do
  for id in C01 C02 C03 C04 C05 C06 C07 C08 C09 C10 C11 C12 C13 C14 C15 C16 C17 C18 C19 C20; do
    out=$(VERIF_SEED=$s VERIF_NO_EVIDENCE=1 ./check $id --tier quick 2>&1); rc=$?
    [ $rc -ne 0 ] && echo "$out" | grep -E "^VIOLATION|clause:|MACHINERY" | head -4
    echo "$out" | tail -1
  done
done
