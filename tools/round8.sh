#!/bin/sh
# usage: tools/round8.sh C13 [C10 ...] -- confirm round-8 seeds (kept as <pid>-O / <pid>-P) and try them against their property's quick check
cd /verif
for pid in "$@"; do
  for pair in "A O" "B P"; do
    set -- $pair; v=$1; name=$2
    SEEDDIR=/tmp/seed8 tools/confirm_seed.sh $pid $v $name 2>&1 | grep -v WARNING | tr '\n' ' '
    if [ -f seeded/$pid-$name/patch.diff ]; then tools/try_patch.sh /verif/seeded/$pid-$name/patch.diff $pid 2>&1 | grep -E "tier=|clause" | sed 's/.*"clause": //' | cut -c1-110 | sort | uniq -c | sort -rn | head -2 | tr '\n' ' '; fi
    echo
  done
done
