"""Run a TLAPS proof module (spec/proofs/*.tla) and report obligations proved.  A bonus leg: never an alarm, never a claim."""
import os, re, shutil, subprocess, tempfile, time
from .tlc import SPEC_DIR


def prove(module, timeout=300):
    tmp = tempfile.mkdtemp(prefix="tlaps_")
    try:
        shutil.copy(os.path.join(SPEC_DIR, "proofs", module + ".tla"), tmp)
        t0 = time.time()
        try:
            p = subprocess.run(["tlapm", "--toolbox", "0", "0", module + ".tla"], cwd=tmp, capture_output=True, text=True, timeout=timeout)
        except (subprocess.TimeoutExpired, FileNotFoundError) as e:
            return dict(module=module, ok=False, note=repr(e)[:100])
        out = p.stdout + p.stderr
        m = re.search(r"All (\d+) obligations? proved", out)
        if m:
            return dict(module=module, ok=True, obligations=int(m.group(1)), discharged=int(m.group(1)), wall_s=round(time.time() - t0, 1))
        f = re.search(r"(\d+)/(\d+) obligations? failed", out)
        return dict(module=module, ok=False, note=(f.group(0) if f else out[-300:]))
    finally:
        shutil.rmtree(tmp, ignore_errors=True)


def attach(ctx, module, what):
    r = prove(module)
    r["statement"] = what
    ctx.extra.setdefault("tlaps_lemmas", []).append(r)
    if not r.get("ok"):
        ctx.notes.append("TLAPS lemma %s not re-proved in this run (%s); no claim depends on it" % (module, r.get("note")))
