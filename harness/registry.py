"""Registry of claimed checks -> MANIFEST.json (run: /venv/bin/python -m harness.registry from /verif)."""
import json, os, sys

ROOT = os.path.dirname(os.path.dirname(os.path.abspath(__file__)))

CHECKS = {
 "C03": dict(
    cat="model_checking", ref="DESIGN.md 5/C03",
    technique="TLA+ spec of the landscape sweep model-checked by TLC against the k-th-largest-tent definition; spec->code replay of TLC's input set and code->spec batch trace validation (hook events + results) by TLC",
    text="TLC exhaustively checks the sweep (one action per loop branch, as coded and as intended) against the definitional k-th largest tent for every multiset of up to 4 (thorough 5) bars on an even-tick lattice, including the sweep's inductive Residual invariant; every input TLC explored is replayed through PersLandscapeExact, and thousands of seeded random diagrams (<=12 bars, ties, repeated bars, several degrees, exact and inexact float embeddings) are recorded with hook events and validated by TLC line by line: property layer (equality with the definition at every integer tick, which is every real t because all breakpoints are integer ticks) raises alarms, algorithm layer only divergence notes.",
    note="Bounded: M by MaxT/MaxBars, R/V by seeds. Inputs on a tick lattice under affine float embeddings (dyadic: exact equality; decimal: snapped within 1e-9). Trusts TLC, the JSON encoder/decoder in harness, and Fraction decoding. The repeated-bar shortcut defect is a recorded known finding matched by spec-decided input class AND equality with the as-coded model's output."),
}

NOT_APPLICABLE_REASON = "check under construction in this round; see DESIGN.md section 5"


def build():
    props = [json.loads(l) for l in open(os.path.join(ROOT, "properties.jsonl"))]
    hooks = dict(
        guard="PERSIM_VERIF",
        enable="PERSIM_VERIF=1 in the environment of the driver process that imports persim (persim is an editable install of /repo, so the working tree is what runs)",
        baseline_off_cmd="cd /repo && env -u PERSIM_VERIF /venv/bin/python -m pytest -ra -q -p no:cacheprovider --timeout=900",
        source_commits=HOOK_COMMITS, add_only=True)
    checks = []
    for p in props:
        c = CHECKS.get(p["id"])
        if not c:
            continue
        checks.append(dict(
            property_id=p["id"], quick_cmd="./check %s --tier quick" % p["id"], thorough_cmd="./check %s --tier thorough" % p["id"],
            evidence_file="evidence/%s.json" % p["id"], replay_cmd_template="./check %s --replay {path}" % p["id"], engine="tlc",
            level_claimed=dict(category=c["cat"], text=c["text"], design_ref=c["ref"]), level_note=c["note"], technique=c["technique"]))
    na = [dict(property_id=p["id"], reason=NA.get(p["id"], NOT_APPLICABLE_REASON)) for p in props if p["id"] not in CHECKS]
    m = dict(version=1, setup_cmd="./setup.sh", hooks=hooks,
             engines=[dict(name="tlc", path="spec/", serves_properties=sorted(CHECKS), kind_free_text="explicit TLA+ specifications checked with TLC 1.8; Python harness drives persim and ships recorded traces to TLC batch validators")],
             checks=checks, not_applicable=na,
             notes="All checks: ./check <id> --tier quick|thorough; VERIF_SEED seeds every random choice. Exit 0 ok, 1 VIOLATION, 2 machinery failure (claims nothing).")
    json.dump(m, open(os.path.join(ROOT, "MANIFEST.json"), "w"), indent=1)
    return m


HOOK_COMMITS = ["78a7460", "8fcd3f2", "82bc496"]
NA = {}

if __name__ == "__main__":
    m = build()
    print("checks:", [c["property_id"] for c in m["checks"]], "n/a:", len(m["not_applicable"]))
