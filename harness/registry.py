"""Registry of claimed checks -> MANIFEST.json (run: /venv/bin/python -m harness.registry from /verif)."""
import json, os, sys

ROOT = os.path.dirname(os.path.dirname(os.path.abspath(__file__)))

CHECKS = {
 "C03": dict(
    cat="model_checking", ref="DESIGN.md 5/C03",
    technique="TLA+ spec of the landscape sweep model-checked by TLC against the k-th-largest-tent definition; spec->code replay of TLC's input set and code->spec batch trace validation (hook events + results) by TLC",
    text="TLC exhaustively checks the sweep (one action per loop branch, as coded and as intended) against the definitional k-th largest tent for every multiset of up to 4 (thorough 5) bars on an even-tick lattice, including the sweep's inductive Residual invariant; every input TLC explored is replayed through PersLandscapeExact, and thousands of seeded random diagrams (<=12 bars, ties, repeated bars, several degrees, exact and inexact float embeddings) are recorded with hook events and validated by TLC line by line: property layer (equality with the definition at every integer tick, which is every real t because all breakpoints are integer ticks) raises alarms, algorithm layer only divergence notes.",
    note="Bounded: M by MaxT/MaxBars, R/V by seeds. Inputs on a tick lattice under affine float embeddings (dyadic: exact equality; decimal: snapped within 1e-9). Trusts TLC, the JSON encoder/decoder in harness, and Fraction decoding. The repeated-bar shortcut defect is a recorded known finding matched by spec-decided input class AND equality with the as-coded model's output."),
 "C01": dict(
    cat="model_checking", ref="DESIGN.md 5/C01",
    technique="TLA+ state machine of persim.bottleneck (filter/pad/matrix/binary search with any-maximum-matching nondeterminism) model-checked by TLC against the definitional min over partial pairings; spec->code replay of the spec's diagram set; code->spec batch validation where TLC checks optimality certificates (perfect matching + Hall violator) against its own definitional cost matrix",
    text="TLC checks Optimal, SearchInv and WarnIffDropped for every pair of lattice diagrams within the constants (<=3 vs <=3 points, thorough <=4 vs <=3, incl. diagonal, repeated and infinite-death points). Every diagram TLC enumerated is replayed through the real function in random row order, 11 float embeddings (incl. 2^-50 and 2^30 scales) and 3 (thorough 32) PYTHONHASHSEEDs; random diagrams up to 14 (thorough 300) points are validated by TLC through certificates it verifies itself (costs are integer half ticks so infeasibility at hopt-1 proves optimality), plus brute force up to 7 points. Hook probes are replayed against the search as coded (algorithm layer, divergence only).",
    note="Bounded by constants/seeds. Certificates are found by the harness (SciPy matching) but validated by TLC; a bad certificate is exit 2, never a verdict. Exact embeddings demand equality; inexact ones snap within 1e-9."),
 "C02": dict(
    cat="model_checking", ref="DESIGN.md 5/C02",
    technique="TLA+ model of the augmented-matrix assignment (any optimal assignment) model-checked by TLC for all small cost tables; recorded executions validated by TLC with fixed-point (limb) arithmetic: sqrt tables verified by squaring, optimality by brute force over partial pairings or LP-duality certificates",
    text="Design theorem AugmentedEqualsPartial checked by TLC for every cost table obeying the diagonal inequality (<=2 vs <=3 points, costs 0..3). The real function is run on lattice diagrams under 11 embeddings; TLC recomputes the definition (Euclidean pair cost, perpendicular diagonal cost) in 1e-16 fixed point and requires agreement to 1e-12 (exact embeddings) / 1e-9, by brute force up to 3 vs 3 points and by dual certificates up to 9 vs 9 (thorough 30 vs 30) points.",
    note="sqrt values are supplied by the harness (integer isqrt) and verified by TLC by squaring. Absolute values only on lattice inputs; general floats are covered through the embeddings. Above 30 points only C07's laws apply."),
 "C06": dict(
    cat="model_checking", ref="DESIGN.md 5/C06",
    technique="TLC explores every matching the nondeterministic matching/assignment steps of the TLA+ models may return and checks Certifies; matchings returned by the real functions are validated by TLC against the definitional cost rules",
    text="Bottleneck.tla with TrackMatching and Wasserstein.tla return ANY perfect matching of the threshold graph / ANY optimal assignment; CertifiesInv holds in every reachable final state. Matchings from persim.bottleneck / persim.wasserstein (hash seeds 0..2, thorough 0..31; sizes to 300 points for bottleneck) are checked row by row by TLC: each index exactly once, -1 conventions, placeholder index 0 for an empty diagram, row cost = the distance's own rule, max / sum = distance, same distance with and without matching.",
    note="Row indices refer to the diagram after infinite-death points were dropped (made explicit by the spec's Filter action). Wasserstein costs compared in fixed point with 1e-12/1e-9 tolerance; bottleneck costs exactly (half ticks)."),
 "C05": dict(
    cat="model_checking", ref="DESIGN.md 5/C05",
    technique="TLA+ transcription of the mGH lower-bound loop and greedy upper-bound heuristic (nondeterministic permutation / first image) model-checked by TLC against the exact distance (min distortion over all maps); spec->code replay of all graph pairs and of the inner feasibility routine; recorded executions validated by TLC with an in-spec branch-and-bound oracle",
    text="TLC checks LbSound in every state of the loop, UbSound and UbIsRealMap for every (permutation, first image) the RNG could draw, IsoZero, and the design lemma greedy-feasibility = existence of an injection, for all 1936 ordered pairs of connected labelled graphs on <=4 vertices (thorough: lower bound on <=5 vertices, 2.5M states). All those pairs and thousands of random connected graphs (<=7, thorough <=9 vertices exact; a focused campaign on pairs whose bound was raised above the trivial one; 10..40 vertices by counter-certificates) are run through persim.gromov_hausdorff over RNG seeds and sample-size orders; TLC recomputes shortest paths and the exact distance from the abstract graph and requires lb <= exact <= ub, half-integers and lb = 0 for verified isomorphisms. construct_mapping calls are recorded by wrapping and replayed through the spec's GreedyMap (algorithm layer).",
    note="Exact oracle bounded (~9 vertices); beyond it only counter-certificate maps can raise an alarm and soundness rests on Theorems A/B of Oles et al. The pruning sort key is modelled without int8 wrap (n <= 11)."),
 "C17": dict(
    cat="model_checking", ref="DESIGN.md 5/C17",
    technique="abstract-graph TLA+ specification (edges -> shortest paths -> components -> exact mGH) with containers as refinement mappings; TLC validates recorded calls under every container/labelling, collection calls and disconnected inputs; MGH.tla model-checked for the bounds themselves",
    text="Every connected labelled graph on <=4 vertices under 14 containers (lists, tuples, dense int/float/bool, CSR/CSC/LIL/sparse array; upper, lower, symmetric) plus random graphs, relabellings, collections (symmetric, zero diagonal, every entry a bracket) and disconnected graphs (warning + bracket for a largest component, raising is a violation) are validated by TLC against the abstract graph; identical labelling => identical lower bound across containers; dtype boundaries (diameter 126..131, thorough to 300) against a one-point space use the closed form diam/2 (PointLemma model-checked) with a distance-matrix certificate verified by TLC.",
    note="COO/DOK/DIA/BSR and non-contiguous views are refused by SciPy itself and excluded. Ties between largest components: any largest component is accepted."),
 "C08": dict(
    cat="model_checking", ref="DESIGN.md 5/C08",
    technique="TLA+ state machine of PersLandscapeApprox.compute_landscape (snap, per-bar ramps, column sort, assemble) model-checked by TLC against the k-th-largest-tent definition for all bars with off-grid endpoints; recorded outputs of the approximate class, vectorize, the transformer and death_vector validated by TLC",
    text="TLC checks HalfStep, ExactOnGrid, SnapWithinHalf and AssembleIsKth for every multiset of <=2..4 bars with arbitrary integer endpoints on grids of 3..7 nodes and steps 1..4. Seeded diagrams (off-grid endpoints, exact mid-point ties, up to 12 overlapping bars, several degrees, infinite bars, grids wider than the diagram, num_steps 2..60, 9 embeddings) are run through PersLandscapeApprox, vectorize(PersLandscapeExact), PersistenceLandscaper.fit_transform and death_vector; TLC decides the half-step bound, exactness on the grid, vectorize = true landscape, transformer = approximate values (flattened or not), death vector sorted with the right multiset.",
    note="Grid covers the diagram (the property's domain). vectorize on inputs where the exact sweep's repeated-bar shortcut fires (C03 known finding) is counted as excluded, decided by the as-coded sweep model inside the validator."),
 "C12": dict(
    cat="model_checking", ref="DESIGN.md 5/C12",
    technique="TLA+ contract machine for the imager geometry with the setters' arithmetic as coded (exact integers, half ticks) model-checked by TLC over all configuration histories; recorded histories on a real PersistenceImager (attributes, output shape, unit-box probes at pixel centres) validated event by event by TLC",
    text="TLC checks SquarePixels, ResTimesPs, PixelSizeKept and Contains for every history of constructor / birth_range / pers_range / pixel_size / fit of length <=3 (thorough 4) over all ranges and pixel sizes within the constants, for the repaired constructor, and reproduces the pre-repair constructor defect at spec level. Seeded histories of up to 10 operations are replayed on a real imager under tick sizes 1, 1/4 (exact) and 0.1, 0.7, 1/3, 0.03 (inexact quotients); after every operation all six public attributes, the transform output shape and uniform-kernel probes (a unit box at a pixel centre must light exactly that pixel) are checked against the contract.",
    note="Attributes are snapped to 1/q half ticks within 1e-9 relative before the integer contract is evaluated; padding placement is not prescribed. The genuine defects found (constructor truncation, int(n*ps/ps)) are repaired in /repo and recorded as fixed."),
 "C18": dict(
    cat="model_checking", ref="DESIGN.md 5/C18",
    technique="TLA+ history machine of the transformers (fit / transform / fit_transform, user-fixed vs learned parameters) model-checked by TLC over all histories; recorded call histories on real estimators validated by TLC with a memo (fitted state, diagram) -> output digest",
    text="TLC checks RefitForgets, FitTransformIsFitThenTransform, TransformUsesLastFit and the action property TransformKeepsState for all histories of length <=4 (thorough 6) over 3 data sets and every subset of user-fixed start/stop, and refutes the pre-repair keep-first fit in two steps. Seeded interleavings of 3..10 calls over 2..4 data sets (collections of 1..4 diagrams, user-fixed bounds incl. 0, flatten or not, three tick sizes) run on real PersistenceLandscaper and PersistenceImager objects; after every call the public attributes and a digest of every returned array are recorded and TLC walks the history: learned state = F(last fit, user-fixed), transform leaves the state unchanged, equal (state, diagram) give equal output whatever the call style, collections are mapped element by element in order.",
    note="Outputs enter as 31-bit digests of the exact bytes (a memo clash is a bitwise difference). User-fixed means given to the constructor. The genuine defect found (landscaper keeps the first grid) is repaired in /repo and recorded as fixed."),
 "C09": dict(
    cat="model_checking", ref="DESIGN.md 5/C09",
    technique="TLA+ environment machine for landscape arithmetic (slope merge as coded, exact rationals) model-checked by TLC against pointwise linear combination with OperandsUnchanged as an action property; recorded operation histories on real objects validated by TLC as functions",
    text="TLC checks PointwiseInv, WellFormed and OperandsUnchanged for every sequence of <=2 (thorough 3) add/sub/neg/scalar operations over a pool of base landscapes with results fed back. Seeded programs of 3..9 operations over exact and grid landscapes (from diagrams or arbitrary zero-ended critical points / values; coincident abscissae, sign changes, unequal depth counts; scalars incl. negatives and fractions; snap_pl, lc_approx, average_approx; mismatched degrees/grids that must raise) run on the real classes; after every operation every live object is re-read and TLC requires all earlier objects unchanged and each result equal to the stated combination of its operands at every depth and at every tick of the union of breakpoints (re-sampling: at the new grid nodes).",
    note="Functions zero at both ends with integer abscissae and dyadic slopes/scalars so results decode exactly (denominator <= 64, otherwise the program is skipped and counted). Operand identity is a 31-bit digest of the full content."),
 "C10": dict(
    cat="model_checking", ref="DESIGN.md 5/C10",
    technique="TLA+ exact segment integrals of |f|^p (rational arithmetic) with their consistency identities and the stability inequality on the definitions model-checked by TLC; recorded p-norms / sup-norms of real landscape objects validated by TLC in fixed-point arithmetic against the integral of the observed critical points",
    text="TLC checks additivity under splitting at every interior tick, agreement of the one-signed and sign-crossing branches, the trapezoid rule and symmetries for all segments within the constants (|y|<=3..4, L<=3..4, p<=4..6), and sup|lambda_k(X)-lambda_k(Y)| <= bottleneck on the definitional operators for all pairs of <=2 bars. Exact and grid landscapes, differences and linear combinations produced by the real operators (sign changes), arbitrary zero-ended critical points and perfect-square ordinates are run through p_norm (p = 1..6 and 1.5, 2.5, 3.5) and sup_norm under 4 exact embeddings; TLC recomputes sum of integrals of |f|^p in 1e-16 fixed point from the observed critical points and requires agreement to 1e-9, finiteness, sup = max|y|, and the stability law with both sides observed.",
    note="Real p outside {1.5, 2.5, 3.5} on perfect-square ordinates is not decided. Stability-law inputs on which the exact sweep fires its repeated-bar shortcut (C03 known finding) are excluded by the as-coded sweep model. The genuine defect found (signed power) is repaired in /repo and recorded as fixed."),
 "C16": dict(
    cat="model_checking", ref="DESIGN.md 5/C16",
    technique="TLA+ pipeline machine of persistent_entropy (listify, infinity handling, lengths, rejection, Shannon, normalisation) model-checked by TLC against a declarative outcome for every flag combination; spec->code replay of all enumerated (input, flags) cases; recorded calls validated by TLC with exact dyadic-family values (ln 2 table) in fixed point",
    text="TLC checks OutcomeAsStated and CoefBounds for every combination of keep_inf / val_inf / normalize and every list of <=2 (thorough 3) diagrams from a pool containing dyadic families, equal bars, an infinite bar, a zero-length and a negative bar; all enumerated cases are replayed through the real function. Seeded Kraft-complete length multisets (entropy = ln2 * sum k_i 2^-k_i exactly), equal bars (= ln n), general barcodes, each with reordered / translated / rescaled copies in the same call, infinite bars under every flag choice, non-positive bars (must raise), array vs list input and a second call on the same arrays are validated by TLC to 1e-12: exact values, 0 <= E <= ln n, normalised in [0,1], one value per diagram in order, invariances, error outcomes.",
    note="Absolute values only on dyadic and equal-length families (elsewhere bounds and invariance laws). ln 2 and ln n (n<=64) come from the generated Tables.tla (60-digit decimal), cross-checked by TLC ASSUMEs. Normalised entropy of a single bar (nan) is outside the property's domain."),
 "C07": dict(
    cat="model_checking", ref="DESIGN.md 5/C07",
    technique="TLA+ session machine (MetricLaws.tla): a table of observed distances between diagrams whose relations (reordering, added diagonal points, diagonal translation, rescaling, emptiness) the specification discovers itself, with every applicable metric/invariance law checked by TLC in fixed point; laws also model-checked on the definitional operator",
    text="Sessions of 14 related diagrams with 30..120 (thorough 50..400) points each -- random diagrams, a reordering, a copy with extra diagonal points, diagonal translates (also into negative coordinates), rescalings, chains sharing bit-identical points, a perturbed copy, the empty diagram -- have all ordered pairs evaluated by persim.bottleneck / persim.wasserstein (exact and inexact embeddings, 3 hash seeds); TLC checks on the whole table: zero on reorderings, symmetry, non-negativity, triangle inequality over all triples, invariance under diagonal points and diagonal translation, linear scaling, value against the empty diagram (max persistence/2, total persistence/sqrt 2), bottleneck <= Wasserstein. The same laws hold as invariants of BottleneckDef in Bottleneck.tla (LawsOnDefinition).",
    note="Relations, not optimality, at these sizes (optimality at size is certified in C01/C02). Tolerance 1e-9 relative + 1e-12 absolute in tick units."),
 "C14": dict(
    cat="exploration", ref="DESIGN.md 5/C14",
    technique="TLA+ law table (MetricLaws.tla) evaluated by TLC on recorded sessions plus an exact dyadic anchor of the multi-scale kernel (sigma = 1/(8 ln 2) on lattice diagrams) computed in fixed point inside the specification",
    text="On lattice diagrams with sigma = 1/(8 ln 2) the kernel is a finite sum of powers of two; TLC requires heat^2 * pi / ln 2 = K2(F,F) + K2(G,G) - 2 K2(F,G), which pins the kernel shape, the mirrored point and the 1/(8 pi sigma) normalisation, under 7 embeddings through the scaling law. For sigma in {0.05..5} and sessions of related diagrams (reorderings, extra diagonal points, translates, perturbed copies, 3..14, thorough 40 points) TLC checks: never NaN, finite, >= 0, zero between reorderings, symmetry, triangle over all triples, diagonal points ignored, translation invariance, heat <= W1/(4 sigma sqrt pi) with both sides observed.",
    note="No state space to explore (a numeric identity): exploration level. Absolute values only on the anchor family. 'Zero' means <= 1e-6 n / sqrt(8 pi sigma) (square root of cancellation noise). The NaN defect found is repaired in /repo and recorded as fixed."),
 "C15": dict(
    cat="model_checking", ref="DESIGN.md 5/C15",
    technique="TLC model-checks the design lemma (sorted matching attains the 1-D transport minimum over all bijections); recorded sessions validated by TLC with an exact rational value for M in {1,2} directions and the property's laws for all M",
    text="SortedIsOptimal, CommonValueIrrelevant and CostSymmetric hold for all pairs of sequences of length <=4 (thorough 5) over 0..3. For M in {1,2} the directions are (0,1) and (-1,0): TLC computes SW exactly (each diagram augmented with the diagonal projections of the other) and requires agreement to 1e-6, on diagrams with coordinates of either sign and 7 embeddings. For M in {1,2,3,5,10,50,60}: finite, >= 0, zero on reorderings, symmetry, triangle, diagonal points ignored, diagonal translation also into negative coordinates, linear scaling, empty diagrams, SW <= 2 W1.",
    note="The code keeps direction vectors in float32, so equalities are granted 1e-6 of the largest coordinate magnitude times the number of points (stated in evidence). Absolute values only for M in {1,2}. The unsigned diagonal projection defect is repaired in /repo and recorded as fixed."),
 "C13": dict(
    cat="exploration", ref="DESIGN.md 5/C13",
    technique="TLA+ law table (TraceKernel.tla) evaluated by TLC in fixed point on recorded evaluation grids of the kernel CDFs: CDF laws, Phi-table marginals, exact anchors at rational-asin correlations in every algorithm branch, reflection identity, cross-algorithm seams at every branch threshold, high-correlation limit, exact rational box CDF",
    text="For 17..21 correlations (five with asin(rho)/(2 pi) rational, one in each quadrature regime and one above 0.925; values on both sides of 0.3, 0.75, 0.925; up to 0.999) and their negatives, means (0,0)/(3,-2) and variances from 1e-4 to 1e4, the kernel is evaluated on a 17x17 lattice reaching 10 standard deviations; TLC checks range, monotonicity in each argument, non-negative rectangle mass, tails, both marginals against the Phi table (1e-7), the value at the mean, the reflection identity, agreement of the two algorithms across every branch threshold (bound verified by squaring), the |rho|->1 limit, zero-covariance forms (gaussian, sbvn_cdf, norm_cdf) against the Phi table to 1e-12 and the uniform kernel against the exact box CDF.",
    note="NOT decided: agreement with an independent bivariate normal reference at arbitrary interior (h,k,rho) to 1e-7 -- TLA+ cannot integrate a 2-D density; a change that keeps marginals, anchors, reflection, seams and limits and is wrong elsewhere by < 1e-3 would be missed. No state space: exploration level. The |rho|>=0.925 defect is repaired in /repo and recorded as fixed."),
 "C04": dict(
    cat="exploration", ref="DESIGN.md 5/C04",
    technique="TLA+ specification of a persistence image pixel (sum over points of weight * kernel mass of the pixel square, birth-persistence axes, skew conversion) evaluated by TLC in fixed point on recorded transforms: rational box overlap for the uniform kernel, Phi-table differences for isotropic and axis-aligned Gaussians on the 1/8-sd lattice",
    text="For seeded configurations (grids of 2..5 x 2..5 pixels, pixel sizes 2 and 4 ticks, origins of either sign; uniform boxes, isotropic Gaussians in scalar and s*I form (the fast path), axis-aligned Gaussians (the general path); persistence^n, linear_ramp and user-callable weights; points inside, on pixel borders and outside the imaged region; repeated pairs; 5 exact embeddings from 2^-50 to 2^30) every pixel of every recorded image is recomputed by TLC from the diagram and must agree to 1e-12 (1e-9 relative); the image must have the configured shape and (birth, persistence) axis order.",
    note="Correlated Gaussians are not decided pixel by pixel (no 2-D integral in TLA+): they enter through C11's relations and C13's kernel laws only. No state space: exploration level. Phi from the generated Tables.tla."),
 "C11": dict(
    cat="exploration", ref="DESIGN.md 5/C11",
    technique="TLA+ relation table (TraceImage.tla): the specification discovers, from the diagrams, which recorded images of one imager configuration must be equal / sum / vanish, and TLC checks every such relation pixel by pixel in fixed point",
    text="Per configuration (all four kernel families incl. correlated Gaussians, all weight families) the images of X, Y, Z, X+Y, a permutation, X plus zero-persistence points, the empty diagram, X with a repeated pair, and X pre-converted to birth-persistence form are recorded alone, inside collections and through joblib workers (n_jobs 1, 2, 4), always handing over the same array objects; TLC requires: equal multisets of non-zero-weight points => equal images (order, single vs collection, worker count, skew form, repeated calls), union => sum, empty / all-zero-weight => all zeros of the configured shape, non-negative weights => no negative pixel and total <= total weight.",
    note="Tolerance 1e-12 absolute + 1e-9 relative in tick units. joblib scheduling is exercised, not enumerated: there is no shared mutable state between workers to model. Exploration level."),
}

NOT_APPLICABLE_REASON = "check under construction in this round; see DESIGN.md section 5"


def build():
    props = [json.loads(l) for l in open(os.path.join(ROOT, "properties.jsonl"))]
    hooks = dict(
        guard="PERSIM_VERIF",
        enable="PERSIM_VERIF=1 in the environment of the driver process that imports persim (persim is an editable install of /repo, so the working tree is what runs)",
        baseline_off_cmd="cd /repo && env -u PERSIM_VERIF /venv/bin/python -m pytest -ra -q -p no:cacheprovider --timeout=900",
        source_commits=HOOK_COMMITS, add_only=True)
    checks = []
    for p in props:
        c = CHECKS.get(p["id"])
        if not c:
            continue
        checks.append(dict(
            property_id=p["id"], quick_cmd="./check %s --tier quick" % p["id"], thorough_cmd="./check %s --tier thorough" % p["id"],
            evidence_file="evidence/%s.json" % p["id"], replay_cmd_template="./check %s --replay {path}" % p["id"], engine="tlc",
            level_claimed=dict(category=c["cat"], text=c["text"], design_ref=c["ref"]), level_note=c["note"], technique=c["technique"]))
    na = [dict(property_id=p["id"], reason=NA.get(p["id"], NOT_APPLICABLE_REASON)) for p in props if p["id"] not in CHECKS]
    m = dict(version=1, setup_cmd="./setup.sh", hooks=hooks,
             engines=[dict(name="tlc", path="spec/", serves_properties=sorted(CHECKS), kind_free_text="explicit TLA+ specifications checked with TLC 1.8; Python harness drives persim and ships recorded traces to TLC batch validators")],
             checks=checks, not_applicable=na,
             notes="All checks: ./check <id> --tier quick|thorough; VERIF_SEED seeds every random choice. Exit 0 ok, 1 VIOLATION, 2 machinery failure (claims nothing).")
    json.dump(m, open(os.path.join(ROOT, "MANIFEST.json"), "w"), indent=1)
    return m


HOOK_COMMITS = ["78a7460", "8fcd3f2", "82bc496"]
NA = {}

if __name__ == "__main__":
    m = build()
    print("checks:", [c["property_id"] for c in m["checks"]], "n/a:", len(m["not_applicable"]))
