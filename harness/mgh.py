"""Shared machinery for C05 / C17 (modified Gromov-Hausdorff): models, graph generators, TLC validation via TraceMGH."""
import itertools, math
from fractions import Fraction
from . import tlc
from .common import unfl, run_driver_parallel

CANON = {"kind": "csr", "sym": False}
REPRS = [{"kind": "list"}, {"kind": "tuple"}, {"kind": "dense"}, {"kind": "dense", "dtype": "float64"}, {"kind": "dense", "dtype": "bool"},
         {"kind": "csr"}, {"kind": "csc"}, {"kind": "lil"}, {"kind": "csr_array"}, {"kind": "dense", "lower": True},
         {"kind": "list", "sym": True}, {"kind": "dense", "sym": True}, {"kind": "csr", "sym": True}, {"kind": "csr", "lower": True},
         {"kind": "csr", "mixed": True}, {"kind": "dense", "mixed": True}, {"kind": "list", "mixed": True}, {"kind": "dense", "dtype": "float64", "sym": True}]
# containers the C05 families draw from (the bracket must not depend on how the undirected edges are stored)
C05_REPRS = [CANON, CANON, {"kind": "csr", "lower": True}, {"kind": "csr", "mixed": True}, {"kind": "dense", "mixed": True}, {"kind": "list", "sym": True}, {"kind": "csc", "mixed": True}]


# ------------------------------------------------------------------ graphs
def rand_connected(rng, n, style=None):
    style = style or rng.choice(["tree", "sparse", "dense", "path", "cycle", "star", "clique", "lollipop"])
    E = set()
    def add(a, b):
        if a != b:
            E.add((min(a, b), max(a, b)))
    if n == 1:
        return []
    if style == "path":
        for i in range(1, n): add(i, i + 1)
    elif style == "cycle":
        for i in range(1, n): add(i, i + 1)
        if n > 2: add(n, 1)
    elif style == "star":
        for i in range(2, n + 1): add(1, i)
    elif style == "clique":
        for a in range(1, n + 1):
            for b in range(a + 1, n + 1): add(a, b)
    elif style == "lollipop":
        k = max(2, n // 2)
        for a in range(1, k + 1):
            for b in range(a + 1, k + 1): add(a, b)
        for i in range(k, n): add(i, i + 1)
    else:
        for i in range(2, n + 1): add(i, rng.randint(1, i - 1))
        extra = {"tree": 0, "sparse": max(1, n // 3), "dense": n * 2}[style]
        for _ in range(extra): add(rng.randint(1, n), rng.randint(1, n))
    return sorted(E)


def relabel(rng, n, E):
    p = list(range(1, n + 1))
    rng.shuffle(p)
    return sorted((min(p[a - 1], p[b - 1]), max(p[a - 1], p[b - 1])) for a, b in E), p


def all_connected_graphs(nmax):
    out = []
    for n in range(1, nmax + 1):
        pairs = list(itertools.combinations(range(1, n + 1), 2))
        for mask in range(1 << len(pairs)):
            E = [pairs[i] for i in range(len(pairs)) if mask >> i & 1]
            if is_connected(n, E):
                out.append((n, E))
    return out


def is_connected(n, E):
    adj = {i: set() for i in range(1, n + 1)}
    for a, b in E:
        adj[a].add(b); adj[b].add(a)
    seen, st = {1}, [1]
    while st:
        x = st.pop()
        for y in adj[x]:
            if y not in seen:
                seen.add(y); st.append(y)
    return len(seen) == n


def dist_matrix(n, E):
    if n > 24:
        return dist_matrix_bfs(n, E)
    INF = 10 ** 6
    D = [[0 if i == j else INF for j in range(n)] for i in range(n)]
    for a, b in E:
        D[a - 1][b - 1] = D[b - 1][a - 1] = 1
    for k in range(n):
        for i in range(n):
            for j in range(n):
                if D[i][k] + D[k][j] < D[i][j]:
                    D[i][j] = D[i][k] + D[k][j]
    return D


def dist_matrix_bfs(n, E):
    adj = [[] for _ in range(n)]
    for a, b in E:
        adj[a - 1].append(b - 1); adj[b - 1].append(a - 1)
    D = []
    for s in range(n):
        d = [10 ** 6] * n
        d[s] = 0
        q = [s]
        for x in q:
            for y in adj[x]:
                if d[y] > d[x] + 1:
                    d[y] = d[x] + 1; q.append(y)
        D.append(d)
    return D


def many_vertices_items(rng, owner, quick, reprs=None):
    """Graphs with MORE THAN 127 VERTICES AND A SMALL DIAMETER (stars, double stars, brooms, wheels, a clique): the distance matrix is
    stored in the smallest integer type that holds the DIAMETER while vertex counts, row frequencies and sort keys exceed it.  Decided
    by certificates verified in TLC: the distance matrices (CertMetric), a relabelling (true distance 0) or a pair of explicit maps
    (their distortion bounds the distance from above); raising on these connected inputs is a violation."""
    def star(n):
        return (n, [(1, i) for i in range(2, n + 1)])
    def dstar(n, k):   # two adjacent centres with k and n-2-k leaves
        return (n, [(1, 2)] + [(1, i) for i in range(3, 3 + k)] + [(2, i) for i in range(3 + k, n + 1)])
    def broom(n, h):   # path of h vertices whose end carries n-h leaves
        return (n, [(i, i + 1) for i in range(1, h)] + [(h, i) for i in range(h + 1, n + 1)])
    def wheel(n):
        return (n, [(1, i) for i in range(2, n + 1)] + [(i, i + 1) for i in range(2, n)] + [(n, 2)])
    sizes = [128, 129, 131, 150] if quick else [127, 128, 129, 130, 131, 140, 150, 180, 200, 256, 257, 300]
    fams = []
    for n in sizes:
        fams += [star(n), dstar(n, rng.randint(1, n - 4)), broom(n, rng.randint(2, 5))]
        if n <= 150:
            fams.append(wheel(n))
    if not quick:
        fams.append((130, rand_connected(rng, 130, "clique")))
    small = [(4, rand_connected(rng, 4, "path")), (6, rand_connected(rng, 6, "star")), (5, rand_connected(rng, 5, "cycle")), (7, rand_connected(rng, 7, "tree"))]
    items = []
    for t, g in enumerate(fams):
        rep = rng.choice(reprs) if reprs else CANON
        # (a) against a relabelled copy of itself: the relabelling is the certificate, the true distance is 0
        E2, p = relabel(rng, g[0], g[1])
        items.append(mk_pair_item(g, (g[0], E2), rep, rep, seed=t, order=[0, 0], exact=False, owner=owner, iso=p, hook=False))
        # (b) against another member of the family: explicit maps (hub to hub, everything else spread over the leaves)
        h = fams[(t + 3) % len(fams)]
        def spread(a, b):
            return [1 if i == 1 else 2 + (i - 2) % (b[0] - 1) for i in range(1, a[0] + 1)]
        items.append(mk_pair_item(g, h, rep, CANON, seed=t, order=[0, 0], exact=False, owner=owner, cmaps=[spread(g, h), spread(h, g)], hook=False))
        # (c) against a small graph in both argument orders: maps = everything to vertex 1 / spread
        s = small[t % len(small)]
        cm = [[1] * g[0], [1] * s[0]]
        items.append(mk_pair_item(g, s, rep, CANON, seed=t, order=[0, 0], exact=False, owner=owner, cmaps=cm, hook=False))
        items.append(mk_pair_item(s, g, CANON, rep, seed=t, order=[0, 0], exact=False, owner=owner, cmaps=[cm[1], cm[0]], hook=False))
    return items


def local_search_map(rng, DX, DY, iters=1500):
    n, m = len(DX), len(DY)
    def dis(f):
        return max([0] + [abs(DX[i][j] - DY[f[i]][f[j]]) for i in range(n) for j in range(i + 1, n)] + [DY[f[i]][f[i]] for i in range(n)])
    best = [rng.randrange(m) for _ in range(n)]
    bd = dis(best)
    for _ in range(iters):
        g = list(best)
        g[rng.randrange(n)] = rng.randrange(m)
        d = dis(g)
        if d <= bd:
            best, bd = g, d
    return [y + 1 for y in best]


# ------------------------------------------------------------------ validation
def half2(x):
    """float -> 2*x as int if x is a non-negative multiple of 1/2 else None"""
    if x != x or abs(x) == float("inf"):
        return None
    f = Fraction(x) * 2
    return int(f) if f.denominator == 1 and f >= 0 else None


def pair_case(gx, gy, res, exact, others=(), iso=None, cmaps=None, algo=True):
    nX, EX, nY, EY = gx[0], gx[1], gy[0], gy[1]
    c = dict(kind="pair", mine="C17", nX=nX, EX=[list(e) for e in EX], nY=nY, EY=[list(e) for e in EY], raised=0, halfint=1, lb2=0, ub2=0,
             warn=res.get("warn", 0), exact=int(exact), iso=iso or [], cmapXY=(cmaps or [[], []])[0], cmapYX=(cmaps or [[], []])[1],
             samples=[], hook=0, others=list(others), algo=int(algo), nreplay=(10 ** 6 if max(nX, nY) <= 12 else 1),
             DXc=dist_matrix(nX, EX) if nX > 16 else [], DYc=dist_matrix(nY, EY) if nY > 16 else [])
    if res.get("raised"):
        c["raised"] = 1
        return c
    lb2, ub2 = half2(unfl(res["lb"])), half2(unfl(res["ub"]))
    if lb2 is None or ub2 is None or max(lb2, ub2) > 10 ** 6:
        c["halfint"] = 0
        return c
    c["lb2"], c["ub2"] = lb2, ub2
    if res.get("hooked") and res.get("samples"):
        c["hook"], c["samples"] = 1, res["samples"]
    return c


def validate(ctx, items, label, mine, nproc=12):
    """items: list of dict(job=..., mk=callable(res)->list of TLC cases, meta=...)"""
    results, _ = run_driver_parallel("mgh.py", [it["job"] for it in items], nproc=nproc)
    cases, owner = [], []
    for it, r in zip(items, results):
        if r.get("machinery") or r.get("noresult"):
            if r.get("noresult"):
                ctx.failure({"clause": mine + "-no-result"}, {"kind": "mgh", "job": it["job"]})
            else:
                ctx.machinery_errors.append(str(r))
            continue
        if r.get("mutated"):
            ctx.extra["inputs_mutated"] = ctx.extra.get("inputs_mutated", 0) + 1
        for c in it["mk"](r):
            cases.append(c)
            owner.append(it)
    for c in cases:
        c["mine"] = mine
    verdicts, st = tlc.run_batch("TraceMGH", cases, nproc=nproc, heap="3g")
    ctx.extra.setdefault("trace_validation_runs", []).append(dict(label=label, cases=len(cases), tlc_states=st["states"], wall_s=round(st["wall"], 1)))
    for c, v, it in zip(cases, verdicts, owner):
        status, clause = v[2], v[3]
        key = (c["kind"], c.get("nX"), str(c.get("EX")), c.get("nY"), str(c.get("EY")), str(it["job"].get("order")), it["job"].get("seed"), str([g["repr"] for g in it["job"]["graphs"]]))
        nontriv = c["kind"] == "matrix" or (c["nX"] >= 3 or c["nY"] >= 3)
        ctx.count(1, key=key, nontrivial=nontriv)
        if status == "ok":
            ctx.ok_trace()
            if c["kind"] == "pair":
                ctx.sample({"X": [c["nX"], c["EX"]], "Y": [c["nY"], c["EY"]], "repr": [g["repr"] for g in it["job"]["graphs"]][:2], "seed": it["job"].get("seed"),
                            "order": it["job"].get("order"), "lb2": c["lb2"], "ub2": c["ub2"], "samples": c["samples"][:3], "verdict": "ok/" + str(v[4])}, cap=4, good=(c["nX"] >= 4 and c["nY"] >= 3 and c["ub2"] > 0))
        elif status == "machinery":
            ctx.machinery_errors.append("TraceMGH: %s on %s" % (clause, key))
        elif status == "divergence":
            ctx.divergence({"clause": clause, "model": v[4], "case": {k2: c[k2] for k2 in ("nX", "EX", "nY", "EY", "lb2", "ub2")}})
        else:
            own = "C17" if clause.startswith("C17") else ("C05" if clause.startswith("C05") else it.get("owner", "C05"))
            if own == mine:
                ctx.failure({"clause": clause, "disconnected": bool(it.get("disconnected"))}, {"kind": "mgh", "job": it["job"], "exact": c.get("exact", 0), "owner": it.get("owner", "C05"),
                                                                                                  "iso": c.get("iso") or None, "cmaps": [c["cmapXY"], c["cmapYX"]] if c.get("cmapXY") else None})
            else:
                ctx.extra["failures_owned_by_other_property"] = ctx.extra.get("failures_owned_by_other_property", 0) + 1
                ctx.traces_total += 1


def mk_pair_item(gx, gy, rx, ry, seed, order, exact, owner, rng=None, iso=None, cmaps=None, disconnected=False, hook=True):
    job = dict(call="pair", graphs=[dict(n=gx[0], edges=gx[1], repr=rx), dict(n=gy[0], edges=gy[1], repr=ry)], seed=seed, order=order)
    algo = max(gx[0], gy[0]) <= 11   # the int8 sort key of the curvature pruning wraps beyond len*diam > 127
    return dict(job=job, owner=owner, disconnected=disconnected,
                mk=lambda res: [pair_case(gx, gy, dict(res, hooked=0) if not hook else res, exact, iso=iso, cmaps=cmaps, algo=algo)])


def run_models(ctx, quick, mine):
    runs = [(dict(MaxV=4, WithUb=False), ["LbSound", "OracleAgrees", "LbEqualsFindLb", "IsoZero", "PointLemma", "AnyCurvatureSound"]),
            (dict(MaxV=4, WithUb=True), ["LbSound", "UbIsRealMap", "UbSound"])]
    for cst, inv in runs:
        r = tlc.run_tlc("MGH", workers=16, constants=cst, invariants=inv, heap="8g", timeout=7200)
        ctx.model("MGH %s %s" % (cst, inv), r, constants=cst)
    if mine == "C05":
        ctx.liveness("MGH", dict(MaxV=3 if quick else 4, WithUb=True), ["Termination", "LoopVariant"])
    # (MaxD=4, MaxCnt=3 does not finish in an hour: the declarative side is a backtracking search over up to 12 items)
    for cst in ([dict(MaxD=3, MaxCnt=3)] if quick else [dict(MaxD=3, MaxCnt=3), dict(MaxD=4, MaxCnt=2), dict(MaxD=5, MaxCnt=1)]):
        r = tlc.run_tlc("FeasMGH", workers=16, constants=cst, invariants=["GreedyEqDecl"], heap="8g", timeout=7200)
        ctx.model("FeasMGH GreedyEqDecl %s" % cst, r, constants=cst)
