"""Shared machinery for C01 / C06 (bottleneck): model runs, R and V legs, TLC validation via TraceBottleneck."""
import json, os, tempfile
from . import tlc
from .common import mktempdir as _mktempdir
from .common import EXACT_EMBS, DEC_EMBS, EXTREME_EMBS, unfl, run_driver_parallel
from .dgm import gen_dgm, to_float_dgm, fin, bott_certificate


def decode_half(emb, x, qs=(1, 2, 4)):
    """distance float -> (q, int) in 1/q half ticks"""
    for q in qs:
        v = emb.ticks(x, 2 * q, shift=False)
        if v is not None:
            return q, v
    return None


def build_case(S, T, emb, res, brute_max=4):
    X, Y = fin(S), fin(T)
    hopt, pm, hall = bott_certificate(X, Y)
    pad = (0 - emb.t) / emb.s
    assert pad.denominator == 1
    c = dict(S=S, T=T, pad=int(pad), hopt=hopt, pm=pm, hallX=hall, brute=int(len(X) <= brute_max and len(Y) <= brute_max and len(X) + len(Y) <= 7))
    vals = [unfl(res["dist"])]
    if "rows" in res:
        vals.append(unfl(res["distm"]))
        vals += [unfl(r[2]) for r in res["rows"]]
    q, ok = 1, True
    dec = []
    for qq in (1, 2, 4, 8):
        dec = [emb.ticks(v, 2 * qq, shift=False) if v == v and abs(v) != float("inf") else None for v in vals]
        if all(d is not None for d in dec):
            q = qq
            break
    else:
        ok = False
    c["lattice"], c["q"] = int(ok), q
    if ok:
        c["dist"] = dec[0]
        if "rows" in res:
            c["hasrows"], c["distm"] = 1, dec[1]
            c["rows"] = [[r[0], r[1], d] for r, d in zip(res["rows"], dec[2:])]
        else:
            c["hasrows"], c["distm"], c["rows"] = 0, 0, []
    else:
        c["dist"], c["hasrows"], c["distm"], c["rows"] = 0, 0, 0, []
    c["warn"] = res.get("warn", [0, 0])
    if res.get("probes") and emb.exact:  # candidate multiplicities are only embedding-independent when float arithmetic is exact
        c["hook"], c["probes"] = 1, [p[:3] for p in res["probes"]]
    else:
        c["hook"], c["probes"] = 0, []
    return c


def validate(ctx, pairs, embs, label, mine, hashseeds=(0,), nproc=12):
    """pairs: list of (S, T) in ticks.  `mine`: prefix of the clauses this property owns ('C01' / 'C06')."""
    jobs = [dict(fn="bottleneck", S=to_float_dgm(S, e), T=to_float_dgm(T, e), matching=True,
                 container=("list" if i % 5 == 0 and all(p[2] for p in S + T) and S and T else "array"))
            for i, ((S, T), e) in enumerate(zip(pairs, embs))]
    # integer-valued finite diagrams also arrive in integer dtypes (unsigned and narrow ones included), the smallest that holds them by turns
    for i, j in enumerate(jobs):
        vals = [v for d in (j["S"], j["T"]) for p in d for v in p]
        if i % 3 == 1 and j["S"] and j["T"] and all(v == v and abs(v) != float("inf") and float(v).is_integer() for v in vals):
            for kind, lo, hi in [("uint8", 0, 255), ("int8", -128, 127), ("uint16", 0, 65535), ("int16", -32768, 32767), ("int32", -2 ** 31, 2 ** 31 - 1), ("int64", -2 ** 62, 2 ** 62)][(i // 3) % 2::2]:
                if all(lo <= v <= hi for v in vals):
                    j["container"] = kind
                    break
    results, seeds = run_driver_parallel("distances.py", jobs, nproc=nproc, hashseeds=hashseeds)
    cases, idx = [], []
    for i, ((S, T), e, r) in enumerate(zip(pairs, embs, results)):
        if "dist" not in r:
            if r.get("machinery"):
                ctx.machinery_errors.append("driver: %s" % r)
                continue
            ctx.failure({"clause": mine + "-no-result", "detail": {k: r.get(k) for k in ("raised", "msg", "noresult")}},
                        {"kind": "bottleneck", "S": S, "T": T, "emb": e.name, "hashseed": seeds[i]})
            continue
        if r.get("rows_raised") and mine == "C06":
            ctx.failure({"clause": "C06-no-matching-result", "detail": r["rows_raised"]},
                        {"kind": "bottleneck", "S": S, "T": T, "emb": e.name, "hashseed": seeds[i]})
            continue
        cases.append(dict(build_case(S, T, e, r), mine=mine))
        idx.append(i)
    verdicts, st = tlc.run_batch("TraceBottleneck", cases, nproc=nproc)
    ctx.extra.setdefault("trace_validation_runs", []).append(dict(label=label, cases=len(cases), tlc_states=st["states"], wall_s=round(st["wall"], 1)))
    ctx.extra["hash_seeds"] = sorted(set(ctx.extra.get("hash_seeds", [])) | set(hashseeds))
    for c, v, i in zip(cases, verdicts, idx):
        status, clause, alg = v[2], v[3], v[4]
        S, T = pairs[i]
        X, Y = fin(S), fin(T)
        key = (tuple(map(tuple, sorted(X))), tuple(map(tuple, sorted(Y))), embs[i].name)
        # non-trivial: the optimal matching must mix diagonal and cross pairings or have ties among candidates
        nontriv = len(X) >= 1 and len(Y) >= 1 and c["hopt"] > 0
        ctx.count(1, key=key, nontrivial=nontriv)
        cname = clause if isinstance(clause, str) else clause[0]
        if status == "machinery":
            ctx.machinery_errors.append("certificate rejected by spec (%s) on S=%s T=%s" % (cname, S, T))
        elif status == "ok":
            ctx.ok_trace()
            ctx.sample({"S_ticks": S, "T_ticks": T, "embedding": embs[i].name, "hashseed": seeds[i], "dist_half_ticks_x_q": [c["dist"], c["q"]],
                        "rows": c["rows"][:6], "probes": c["probes"][:6], "verdict": "ok"}, cap=3)
        elif status == "divergence":
            ctx.divergence({"clause": cname, "S": S, "T": T, "probes": c["probes"]})
        elif cname.startswith(mine) or cname == "value-off-lattice":
            ctx.failure({"clause": cname, "detail": clause}, {"kind": "bottleneck", "S": S, "T": T, "emb": embs[i].name, "hashseed": seeds[i]})
        else:
            ctx.extra["failures_owned_by_other_property"] = ctx.extra.get("failures_owned_by_other_property", 0) + 1
            ctx.traces_total += 1


def all_embs():
    return EXACT_EMBS + DEC_EMBS + EXTREME_EMBS


def run(ctx, mine):
    quick = ctx.tier == "quick"
    # ---- M
    if mine == "C01":
        runs = [(dict(B=3, MaxS=2, MaxT=2, WithInf=True, TrackMatching=False), ["Optimal", "WarnIffDropped", "SearchInv"]),
                (dict(B=3, MaxS=3, MaxT=3, WithInf=False, TrackMatching=False), ["Optimal", "SearchInv"])]
        if not quick:
            runs += [(dict(B=3, MaxS=4, MaxT=3, WithInf=False, TrackMatching=False), ["Optimal", "SearchInv"]),
                     (dict(B=4, MaxS=3, MaxT=3, WithInf=False, TrackMatching=False), ["Optimal", "SearchInv"]),
                     (dict(B=3, MaxS=3, MaxT=3, WithInf=True, TrackMatching=False), ["Optimal", "WarnIffDropped", "SearchInv"])]
    else:
        runs = [(dict(B=3, MaxS=2, MaxT=2, WithInf=True, TrackMatching=True), ["Optimal", "CertifiesInv"])]
        if not quick:
            runs += [(dict(B=3, MaxS=3, MaxT=2, WithInf=False, TrackMatching=True), ["Optimal", "CertifiesInv"]),
                     (dict(B=2, MaxS=3, MaxT=3, WithInf=False, TrackMatching=True), ["Optimal", "CertifiesInv"])]
    for cst, inv in runs:
        r = tlc.run_tlc("Bottleneck", workers=16, constants=cst, invariants=inv, heap="8g", timeout=7200)
        ctx.model("Bottleneck %s %s" % (cst, inv), r, constants=cst)
    if mine == "C01":
        ctx.liveness("Bottleneck", dict(B=3, MaxS=2, MaxT=2, WithInf=True, TrackMatching=False) if quick else dict(B=3, MaxS=3, MaxT=3, WithInf=False, TrackMatching=False),
                     ["Termination", "SearchShrinks", "BestNeverWorsens"])
    # ---- R: the diagram set TLC's Init ranges over, dumped by the spec
    dump = os.path.join(_mktempdir(prefix="bottdump_"), "dump.json")
    r = tlc.run_tlc("Bottleneck", workers=1, env={"DUMP_FILE": dump}, init="DumpInit", nxt="DumpNext",
                    constants=dict(B=3, MaxS=3, MaxT=3, WithInf=True, TrackMatching=False))
    if r["error"] or not os.path.exists(dump):
        ctx.machinery_errors.append("Bottleneck dump failed:\n" + r["out"][-2000:])
        return
    dgms = [[[p[0], p[1], 1 if p[2] else 0] for p in d] for d in json.load(open(dump))]
    os.remove(dump)
    ctx.extra["spec_dumped_diagrams"] = len(dgms)
    rng = ctx.rng
    small = [d for d in dgms if len(d) <= 2]
    pairs = [(a, b) for a in small for b in small]
    nR = 2500 if quick else 40000
    pairs += [(rng.choice(dgms), rng.choice(dgms)) for _ in range(nR)]
    embs_all = all_embs()
    embs = [embs_all[i % len(embs_all)] for i in range(len(pairs))]
    # random row order: the spec's diagrams are sorted, the code must not care
    pairs = [(rng.sample(a, len(a)), rng.sample(b, len(b))) for a, b in pairs]
    hs = (0, 1, 2) if quick else tuple(range(32))
    validate(ctx, pairs, embs, "R", mine, hashseeds=hs)
    # ---- V: beyond the model's bounds
    nV, nmax = (1200, 14) if quick else (6000, 40)
    pairs = []
    for i in range(nV):
        tmax = rng.choice([4, 6, 10, 30])
        pairs.append((gen_dgm(rng, nmax if i % 4 else 5, tmax), gen_dgm(rng, nmax if i % 4 else 5, tmax)))
    if not quick:
        for i in range(120):
            pairs.append((gen_dgm(rng, 300, 60, nmin=100), gen_dgm(rng, 300, 60, nmin=100)))
    embs = [embs_all[i % len(embs_all)] for i in range(len(pairs))]
    validate(ctx, pairs, embs, "V", mine, hashseeds=hs)


def replay(ctx, rec, mine):
    c = rec["case"]
    e = next(x for x in all_embs() if x.name == c["emb"])
    validate(ctx, [(c["S"], c["T"])], [e], "replay", mine, hashseeds=(c.get("hashseed", 0),), nproc=1)
