"""Sessions of related diagrams and the MetricLaws.tla validation shared by C07 (bottleneck, Wasserstein), C14 (heat), C15 (sliced)."""
import math
from fractions import Fraction
from . import tlc
from .common import EXACT_EMBS, DEC_EMBS, EXTREME_EMBS, unfl, run_driver_parallel
from .fix import fix

# narrow and unsigned integer dtypes a diagram may legitimately arrive in (value ranges)
NARROW = {"uint8": (0, 255), "int8": (-128, 127), "uint16": (0, 65535), "int16": (-32768, 32767), "int32": (-2 ** 31, 2 ** 31 - 1), "uint32": (0, 2 ** 32 - 1)}
FNMAP = {"bott": "bottleneck", "wass": "wasserstein", "heat": "heat", "sw": "sliced"}


def rand_dgm(rng, n, tmax, neg=False, diag=0.1):
    lo = -tmax if neg else 0
    out = []
    for _ in range(n):
        b = rng.randint(lo, tmax - 1)
        d = b if rng.random() < diag else rng.randint(b + 1, tmax + (tmax if neg else 0))
        out.append([b, d])
    return out


def repaired(rng, X):
    """same multiset of births and same multiset of deaths as X, paired differently (still birth <= death where possible)"""
    bs = sorted(p[0] for p in X)
    ds = sorted(p[1] for p in X)
    # sorted births with sorted deaths is always a valid pairing; rotate deaths among points where it stays valid
    Y = [[b, d] for b, d in zip(bs, ds)]
    for _ in range(len(Y)):
        i, j = rng.randrange(len(Y)), rng.randrange(len(Y))
        if Y[i][0] <= Y[j][1] and Y[j][0] <= Y[i][1]:
            Y[i][1], Y[j][1] = Y[j][1], Y[i][1]
    return Y


def make_session(rng, nmin, nmax, tmax, neg=False, with_empty=True, nbase=3, far=False):
    """list of diagrams (ticks) with relations the spec will discover: permutation, added diagonal points, diagonal translation, rescaling"""
    bases = [rand_dgm(rng, rng.randint(nmin, nmax), tmax, neg) for _ in range(nbase)]
    X, Y = bases[0], bases[1]
    t = rng.choice([3, 7, -5] + ([-2 * tmax - 3] if neg else []))
    if far:     # a diagonal translation by 1e5..1e6 ticks: persistence becomes tiny relative to the coordinates
        t = rng.choice([10 ** 5, 3 * 10 ** 5, 10 ** 6, -10 ** 6])
    f = rng.choice([2, 3])
    S = list(bases)
    S.append(rng.sample(X, len(X)))                                            # reordering
    S.append(X + [[v, v] for v in (rng.randint(0, tmax) for _ in range(rng.randint(1, 4)))])   # extra diagonal points
    S.append([[b + t, d + t] for b, d in X]); S.append([[b + t, d + t] for b, d in Y])   # both translated along the diagonal
    S.append([[b * f, d * f] for b, d in X]); S.append([[b * f, d * f] for b, d in Y])   # both rescaled
    # chains sharing bit-identical points: T is S moved one step along the diagonal (k-1 common points), U half a step (none);
    # an optimal matching pairs neighbours, so d(S,T) = step while cancelling common points would give k*step
    k = rng.randint(4, max(5, min(40, nmax)))
    step = rng.choice([2, 4]); L = rng.choice([6, 10, 20, 50])
    chain = [[i * step, i * step + L] for i in range(k)]
    S.append(chain); S.append([[b + step, d + step] for b, d in chain]); S.append([[b + step // 2, d + step // 2] for b, d in chain])
    # a perturbed copy: most points shared with X, a few moved
    Xp = [list(p) for p in X]
    for _ in range(min(len(Xp), rng.randint(1, 3))):
        q = rng.randrange(len(Xp))
        Xp[q] = [Xp[q][0] + 1, Xp[q][1] + rng.choice([1, 2])]
    S.append(Xp)
    S.append(repaired(rng, X))      # same births, same deaths, different pairing
    if with_empty:
        S.append([])
    return S


def representable(sp, kind):
    e = sp["emb"]
    vals = [e.f(v) for d in sp["session"] for p in d for v in p]
    if kind in (None, "array", "list", "float32"):
        return True
    if not all(float(v).is_integer() for v in vals):
        return False
    if kind in ("int", "intlist"):
        return all(abs(v) < 2 ** 52 for v in vals)
    lo, hi = NARROW[kind]
    if kind.startswith("u"):          # (an unsigned session is lifted above zero first)
        span = (max(vals) - min(vals)) if vals else 0
        return span <= hi and (not vals or max(vals) - min(min(vals), 0) <= hi)
    return all(lo <= v <= hi for v in vals)


def pick_container(rng, sp, kinds):
    """one of `kinds` that can hold this session under its embedding (integer kinds need integer-valued coordinates in range)"""
    ok = [k for k in kinds if representable(sp, k)]
    narrow = [k for k in ok if k in NARROW]
    if narrow and rng.random() < 0.6:       # integer-valued sessions are rare among the embeddings: use them for the narrow dtypes
        uns = [k for k in narrow if k.startswith("u")]
        return rng.choice(uns) if uns and rng.random() < 0.5 else rng.choice(narrow)
    return rng.choice(ok) if ok else None


def lift_for_unsigned(sp):
    """a session that is to be handed over in an UNSIGNED dtype is translated along the diagonal until every coordinate is >= 0 (ticks and
    embedded values alike); the specification discovers the relations between the diagrams from the diagrams themselves"""
    if sp.get("container") not in ("uint8", "uint16", "uint32"):
        return
    e = sp["emb"]
    vals = [v for d in sp["session"] for p in d for v in p]
    if not vals or e.s <= 0:
        return
    need = 0
    while min(e.f(v + need) for v in vals) < 0 and need < 10 ** 6:
        need += 1 + need
    if need:
        sp["session"] = [[[b + need, d + need] for b, d in dg] for dg in sp["session"]]


def observe(session, fn, emb, nproc, sigma_t=None, M=None, hashseeds=(0,), container=None, float_sigma=False):
    jobs = []
    n = len(session)
    sf = None if sigma_t is None else float(emb.s) ** 2 * sigma_t
    if sf is not None and float(sf).is_integer() and 0 < sf < 2 ** 40 and not float_sigma:
        sf = int(sf)        # a whole-number bandwidth is handed over as a Python int (as in heat(F, G, sigma=1))
    if container:   # one job: the whole session on shared argument objects
        D = [[[emb.f(b), emb.f(d)] for b, d in dg] for dg in session]
        if container in ("int", "intlist") and not all(float(v).is_integer() and abs(v) < 2 ** 52 for dg in D for p in dg for v in p):
            container = "array"
        if container in NARROW:
            lo, hi = NARROW[container]
            if not all(float(v).is_integer() and lo <= v <= hi for dg in D for p in dg for v in p):
                container = "array"
        return [dict(fn="session", dist=FNMAP[fn], D=D, container=container, M=M, sigma=sf, _n=n * n)]
    for i in range(n):
        for j in range(n):
            jb = dict(fn=FNMAP[fn], S=[[emb.f(b), emb.f(d)] for b, d in session[i]], T=[[emb.f(b), emb.f(d)] for b, d in session[j]], matching=False)
            if fn == "heat":
                jb["sigma"] = sf
            if fn == "sw":
                jb["M"] = M
            jobs.append(jb)
    return jobs


def to_matrix(results, n, conv):
    M = []
    it = iter(results)
    bad = None
    for i in range(n):
        row = []
        for j in range(n):
            r = next(it)
            if "dist" not in r:
                row.append([0, fix(0)]); bad = r
                continue
            v = unfl(r["dist"])
            if v != v or abs(v) == float("inf"):
                row.append([0, fix(0)])
            else:
                row.append([1, fix(conv(Fraction(v)))])
        M.append(row)
    return M, bad


def run_sessions(ctx, specs, label, owner_clause=lambda cl: True, nproc=12):
    """specs: list of dict(session, fn, emb, sigma_t (float or None), anchor, M, aux ('W' and/or 'BT')).  One TLC case per spec."""
    # 'edit' (with shared containers): after the first round of calls every argument object is OVERWRITTEN IN PLACE with the doubled
    # coordinates (same objects, same shapes -- what a caller does who rescales his arrays) and all calls are made again; the second
    # round is judged as a session of its own (the twin spec) on the doubled diagrams
    expanded = []
    for sp in specs:
        lift_for_unsigned(sp)
        expanded.append(sp)
        if sp.get("container") and sp.get("edit"):
            tw = {k: v for k, v in sp.items() if k != "edit"}
            tw["session"] = [[[2 * b, 2 * d] for b, d in dg] for dg in sp["session"]]
            tw["_twin_of"] = sp
            tw["zerotol"] = sp["zerotol"] * 2
            sp["_twin"] = tw
            expanded.append(tw)
    specs = expanded
    alljobs, slices = [], []
    for sp in specs:
        n = len(sp["session"])
        parts = {}
        for key, fn in [("V", sp["fn"])] + [(a, {"W": "wass", "BT": "bott", "SF": sp["fn"]}[a]) for a in sp.get("aux", [])]:
            if key == "V" and sp.get("_twin_of") is not None:
                parts[key] = (None, 0)
                continue
            jobs = observe(sp["session"], fn, sp["emb"], nproc, sp.get("sigma_t"), sp.get("M"), container=sp.get("container") if key == "V" else None, float_sigma=(key == "SF"))
            if key == "V" and sp.get("_twin") is not None:
                jobs[0]["D2"] = [[[sp["emb"].f(b), sp["emb"].f(d)] for b, d in dg] for dg in sp["_twin"]["session"]]
            parts[key] = (len(alljobs), len(jobs))
            alljobs += jobs
        slices.append(parts)
    results, _ = run_driver_parallel("distances.py", alljobs, nproc=nproc, hashseeds=tuple(range(3)))
    # expand whole-session jobs (shared argument objects) into their n*n results
    mutated = {}
    bysp = {id(sp): parts for sp, parts in zip(specs, slices)}
    for sp, parts in zip(specs, slices):
        lo, ln = parts["V"]
        if sp.get("container") and ln == 1:
            r = results[lo]
            n2 = len(sp["session"]) ** 2
            parts["Vx"] = r["dists"] if "dists" in r else [dict(r) for _ in range(n2)]
            if r.get("mutated"):
                mutated[id(sp)] = r["mutated"]
            if sp.get("_twin") is not None:
                bysp[id(sp["_twin"])]["Vx"] = r["dists2"] if "dists2" in r else [dict(r) for _ in range(n2)]
    cases = []
    for sp, parts in zip(specs, slices):
        e = sp["emb"]
        n = len(sp["session"])
        s = e.s
        conv = (lambda v: v * s) if sp["fn"] == "heat" else (lambda v: v / s)
        lo, ln = parts["V"]
        V, bad = to_matrix(parts["Vx"] if "Vx" in parts else results[lo:lo + ln], n, conv)
        c = dict(fn=sp["fn"], D=sp["session"], V=V, W=[], BT=[], SF=[], sigma=fix(Fraction(sp["sigma_t"]) if sp.get("sigma_t") else 0), anchor=int(sp.get("anchor", 0)),
                 Mdirs=sp.get("M") or 1, zerotol=fix(Fraction(sp["zerotol"])))
        for a in sp.get("aux", []):
            lo, ln = parts[a]
            c[a], _ = to_matrix(results[lo:lo + ln], n, conv if a == "SF" else (lambda v: v / s))
        c["_bad"] = bad
        cases.append(c)
    tl = [{k: v for k, v in c.items() if k != "_bad"} for c in cases]
    verdicts, st = tlc.run_batch("MetricLaws", tl, nproc=nproc, heap="3g")
    ctx.extra.setdefault("trace_validation_runs", []).append(dict(label=label, sessions=len(cases), calls=len(alljobs), tlc_states=st["states"], wall_s=round(st["wall"], 1)))
    for sp, c, v in zip(specs, cases, verdicts):
        status, clause = v[2], v[3]
        sizes = [len(d) for d in sp["session"]]
        ctx.count(len(sp["session"]) ** 2, key=(sp["fn"], str(sp["session"][:2]), sp["emb"].name, sp.get("M"), str(sp.get("sigma_t"))), nontrivial=max(sizes) >= 2)
        if status == "ok":
            ctx.ok_trace()
            ctx.sample({"fn": sp["fn"], "embedding": sp["emb"].name, "diagram_sizes": sizes, "first_diagram_ticks": sp["session"][0][:6], "anchor": sp.get("anchor", 0), "M": sp.get("M"),
                        "sigma_ticks": sp.get("sigma_t"), "laws": "finite, >=0, zero on reorderings, symmetry, triangle, diagonal points, diagonal translation, scaling, empty, comparison", "verdict": "ok"}, cap=4)
        else:
            info = {"clause": clause, "fn": sp["fn"], "indices": v[4:7]}
            if sp.get("container"):
                info["arguments"] = "one set of %s objects shared by all calls of the session" % sp["container"]
                if sp.get("_twin_of") is not None:
                    info["history"] = "second round: the same argument objects after being overwritten in place with doubled coordinates"
                if id(sp) in mutated:
                    info["arguments_modified_by_the_calls"] = mutated[id(sp)]
            if clause == "not-finite-or-NaN" and c["_bad"] is not None:
                info["raised"] = c["_bad"].get("raised")
            src = sp.get("_twin_of") or sp
            ctx.failure(info, {"kind": "laws", "fn": sp["fn"], "session": src["session"], "emb": sp["emb"].name, "edit": int(bool(src.get("edit"))), "sigma_t": sp.get("sigma_t"), "M": sp.get("M"),
                               "anchor": sp.get("anchor", 0), "aux": sp.get("aux", []), "zerotol": str(sp["zerotol"]), "container": sp.get("container")})


def replay(ctx, rec):
    c = rec["case"]
    e = next(x for x in EXACT_EMBS + DEC_EMBS + EXTREME_EMBS if x.name == c["emb"])
    run_sessions(ctx, [dict(session=c["session"], fn=c["fn"], emb=e, sigma_t=c.get("sigma_t"), M=c.get("M"), anchor=c.get("anchor", 0), aux=c.get("aux", []),
                            zerotol=Fraction(c["zerotol"]), container=c.get("container"), edit=c.get("edit", 0))], "replay", nproc=1)
