"""TLC runner, output parser and batch-case driver (stdlib only)."""
import json, os, re, shutil, subprocess, tempfile, time, concurrent.futures as cf

SPEC_DIR = os.path.join(os.path.dirname(os.path.dirname(os.path.abspath(__file__))), "spec")
JAR = "/opt/veriftools/tla/tla2tools.jar:/opt/veriftools/tla/CommunityModules-deps.jar"


class TLCError(Exception):
    pass


# ---------------------------------------------------------------- value parser
def parse_tla(s):
    """Parse a printed TLA+ value (tuples, sets, records, functions, strings, ints, booleans)."""
    pos = [0]

    def ws():
        while pos[0] < len(s) and s[pos[0]] in " \n\t\r":
            pos[0] += 1

    def val():
        ws()
        c = s[pos[0]]
        if s.startswith("<<", pos[0]):
            pos[0] += 2
            return seq(">>")
        if c == "{":
            pos[0] += 1
            return seq("}")
        if c == "[":
            pos[0] += 1
            return rec()
        if c == "(":  # function printed as (a :> b @@ c :> d)
            pos[0] += 1
            return fun()
        if c == '"':
            j = pos[0] + 1
            out = []
            while s[j] != '"':
                if s[j] == "\\":
                    j += 1
                out.append(s[j])
                j += 1
            pos[0] = j + 1
            return "".join(out)
        m = re.compile(r"-?\d+").match(s, pos[0])
        if m:
            pos[0] = m.end()
            return int(m.group())
        m = re.compile(r"[A-Za-z_][A-Za-z_0-9]*").match(s, pos[0])
        if m:
            pos[0] = m.end()
            w = m.group()
            return True if w == "TRUE" else False if w == "FALSE" else w
        raise ValueError("cannot parse TLA value at %d: %r" % (pos[0], s[pos[0]:pos[0] + 40]))

    def seq(close):
        out = []
        ws()
        if s.startswith(close, pos[0]):
            pos[0] += len(close)
            return out
        while True:
            out.append(val())
            ws()
            if s.startswith(close, pos[0]):
                pos[0] += len(close)
                return out
            if s[pos[0]] != ",":
                raise ValueError("expected , at %d" % pos[0])
            pos[0] += 1

    def rec():
        out = {}
        while True:
            ws()
            m = re.compile(r"[A-Za-z_][A-Za-z_0-9]*").match(s, pos[0])
            k = m.group()
            pos[0] = m.end()
            ws()
            assert s.startswith("|->", pos[0])
            pos[0] += 3
            out[k] = val()
            ws()
            if s[pos[0]] == "]":
                pos[0] += 1
                return out
            pos[0] += 1

    def fun():
        out = {}
        while True:
            k = val()
            ws()
            assert s.startswith(":>", pos[0])
            pos[0] += 2
            out[json.dumps(k) if isinstance(k, (list, dict)) else k] = val()
            ws()
            if s[pos[0]] == ")":
                pos[0] += 1
                return out
            assert s.startswith("@@", pos[0])
            pos[0] += 2

    v = val()
    return v


def extract_printed(out, tag):
    """All PrintT'ed tuples whose first element is the string `tag` (bracket matching across lines)."""
    res = []
    pat = re.compile(r'<<\s*"%s"' % re.escape(tag))
    i = 0
    while True:
        m = pat.search(out, i)
        if not m:
            break
        i = m.start()
        depth, j, instr = 0, i, False
        while j < len(out):
            if instr:
                if out[j] == "\\":
                    j += 1
                elif out[j] == '"':
                    instr = False
            elif out[j] == '"':
                instr = True
            elif out.startswith("<<", j):
                depth += 1
                j += 1
            elif out.startswith(">>", j):
                depth -= 1
                j += 1
                if depth == 0:
                    break
            j += 1
        res.append(parse_tla(out[i:j + 1]))
        i = j + 1
    return res


# ---------------------------------------------------------------- running TLC
def _java_cmd(workers, heap="2g", gc_threads=2, deque=False, tmpdir=None):
    cmd = ["java", "-XX:+UseParallelGC", "-XX:ParallelGCThreads=%d" % gc_threads, "-Xmx" + heap, "-Xss16m"]
    if tmpdir:
        cmd.append("-Djava.io.tmpdir=" + tmpdir)   # TLC unpacks its standard modules there; removed with the metadir
    if deque:
        cmd.append("-Dtlc2.tool.queue.IStateQueue=StateDeque")
    cmd += ["-cp", JAR, "tlc2.TLC"]
    return cmd


def run_tlc(module, cfg=None, env=None, workers=1, timeout=3600, simulate=None, depth=None, seed=None,
            coverage=False, heap="3g", extra=(), constants=None, invariants=None, spec="Spec", init=None,
            nxt=None, properties=None, constraints=None, postcondition=None, deadlock=False, view=None):
    """Run TLC on spec/<module>.tla.  A cfg is generated from the keyword arguments unless `cfg` names one.
    Returns dict(ok, states, distinct, out, wall, violated, coverage)."""
    meta = tempfile.mkdtemp(prefix="tlcmeta_")
    try:
        if cfg is None:
            lines = []
            if init:
                lines += ["INIT " + init, "NEXT " + nxt]
            else:
                lines += ["SPECIFICATION " + spec]
            for k, v in (constants or {}).items():
                if isinstance(v, str) and v.startswith("<-"):      # substitution by a definition of the module
                    lines.append("CONSTANT %s <- %s" % (k, v[2:].strip()))
                else:
                    lines.append("CONSTANT %s = %s" % (k, tla_lit(v)))
            for i in invariants or []:
                lines.append("INVARIANT " + i)
            for p in properties or []:
                lines.append("PROPERTY " + p)
            for c in constraints or []:
                lines.append("CONSTRAINT " + c)
            if postcondition:
                lines.append("POSTCONDITION " + postcondition)
            if view:
                lines.append("VIEW " + view)
            lines.append("CHECK_DEADLOCK " + ("TRUE" if deadlock else "FALSE"))
            cfgpath = os.path.join(meta, module + "_gen.cfg")
            open(cfgpath, "w").write("\n".join(lines) + "\n")
        else:
            cfgpath = os.path.join(SPEC_DIR, cfg)
        jtmp = os.path.join(meta, "jtmp")
        os.makedirs(jtmp, exist_ok=True)
        cmd = _java_cmd(workers, heap=heap, gc_threads=max(2, min(4, workers if isinstance(workers, int) else 4)), tmpdir=jtmp)
        cmd += ["-workers", str(workers), "-metadir", os.path.join(meta, "states"), "-noGenerateSpecTE",
                "-config", cfgpath]
        if not deadlock and cfg is not None:
            cmd += ["-deadlock"]
        if simulate:
            cmd += ["-simulate", simulate]
        if depth:
            cmd += ["-depth", str(depth)]
        if seed is not None:
            cmd += ["-seed", str(seed)]
        if coverage:
            cmd += ["-coverage", "1"]
        cmd += list(extra) + [module]
        e = dict(os.environ)
        e.update(env or {})
        t0 = time.time()
        try:
            p = subprocess.run(cmd, cwd=SPEC_DIR, env=e, capture_output=True, text=True, timeout=timeout)
        except subprocess.TimeoutExpired as ex:
            raise TLCError("TLC timeout on %s after %ss" % (module, timeout))
        out = p.stdout + p.stderr
        wall = time.time() - t0
        m = re.findall(r"(\d+) states generated, (\d+) distinct states found", out)
        states, distinct = (int(m[-1][0]), int(m[-1][1])) if m else (0, 0)
        violated = re.findall(r"Invariant (\S+) is violated", out) + re.findall(r"Action property (\S+) is violated", out)
        violated += re.findall(r"Temporal property (\S+) was violated", out)
        if "Temporal properties were violated" in out:
            violated.append("temporal")
        finished = "Model checking completed" in out or "Finished in" in out or simulate
        err = ("Error:" in out and not violated) or p.returncode not in (0, 12, 13) and not violated
        cov = {}
        if coverage:
            for mm in re.finditer(r"<(\w+) line \d+, col \d+ to line \d+, col \d+ of module \w+>: (\d+):(\d+)", out):
                cov[mm.group(1)] = cov.get(mm.group(1), 0) + int(mm.group(3))
        return dict(ok=(not err and not violated and bool(finished)), error=bool(err), states=states, distinct=distinct,
                    out=out, wall=wall, violated=violated, coverage=cov, rc=p.returncode)
    finally:
        shutil.rmtree(meta, ignore_errors=True)


def simulate_behaviours(module, constants, num, depth, seed, heap="2g", invariants=None, timeout=1800):
    """spec -> code: `tlc -simulate file=...` writes one TLA+ file per random behaviour of spec/<module>.tla; returns (run record, list of
    behaviours), a behaviour being the list of its states as dicts variable -> parsed value."""
    d = tempfile.mkdtemp(prefix="tlcsim_")
    try:
        r = run_tlc(module, workers=1, constants=constants, simulate="file=%s/tr,num=%d" % (d, num), depth=depth, seed=seed, heap=heap,
                    invariants=invariants, timeout=timeout)
        out = []
        for f in sorted(os.listdir(d)):
            txt = open(os.path.join(d, f)).read()
            states = []
            for block in re.split(r"STATE_\d+ ==", txt)[1:]:
                st = {}
                block = block.split("\n\n")[0] if "\n\n\\*" in block else block
                for part in re.split(r"^/\\ ", block, flags=re.M)[1:]:        # a value may run over several lines
                    m = re.match(r"(\w+) = (.*)", part, re.S)
                    if m:
                        val_ = m.group(2)
                        val_ = re.split(r"\n\s*\n|\n\\\*|\n=====", val_)[0]
                        st[m.group(1)] = parse_tla(val_.strip())
                states.append(st)
            if states:
                out.append(states)
        return r, out
    finally:
        shutil.rmtree(d, ignore_errors=True)


def tla_lit(v):
    if isinstance(v, bool):
        return "TRUE" if v else "FALSE"
    if isinstance(v, int):
        return str(v)
    if isinstance(v, str):
        return v  # model value / raw text
    if isinstance(v, (list, tuple)):
        return "<<" + ", ".join(tla_lit(x) for x in v) + ">>"
    if isinstance(v, (set, frozenset)):
        return "{" + ", ".join(tla_lit(x) for x in sorted(v)) + "}"
    raise TypeError(v)


def _check_small(o, path="$"):
    if isinstance(o, bool) or o is None or isinstance(o, str):
        return
    if isinstance(o, int):
        if abs(o) >= 2 ** 31 - 1:
            raise TLCError("integer too large for TLC at %s: %d" % (path, o))
        return
    if isinstance(o, float):
        raise TLCError("float shipped to TLC at %s: %r" % (path, o))
    if isinstance(o, dict):
        for k, v in o.items():
            _check_small(v, path + "." + str(k))
        return
    if isinstance(o, (list, tuple)):
        for i, v in enumerate(o):
            _check_small(v, path + "[%d]" % i)
        return
    raise TLCError("bad type at %s: %r" % (path, type(o)))


_in_selftest = [False]


def run_batch(module, cases, tag="V", nproc=8, timeout=3600, env=None, chunk_min=1, constants=None, heap="2g"):
    """Evaluate `cases` (list of JSON-able dicts, small ints only) with the batch module spec/<module>.tla.
    The module reads IOEnv.TRACE_FILE, walks the cases with one TLC step each and PrintT's <<tag, k, ...>>.
    Cases are split over `nproc` single-worker TLC processes.  Returns list of verdict tuples aligned with cases
    (tuple[1] is replaced by the global case index) and stats."""
    if not cases:
        return [], dict(states=0, distinct=0, wall=0.0)
    _check_small(cases)
    n = len(cases)
    nchunks = max(1, min(nproc, n // max(1, chunk_min)))
    bounds = [(i * n) // nchunks for i in range(nchunks + 1)]
    tmp = tempfile.mkdtemp(prefix="tlcbatch_")
    try:
        def job(ci):
            lo, hi = bounds[ci], bounds[ci + 1]
            path = os.path.join(tmp, "cases_%d.json" % ci)
            json.dump(cases[lo:hi], open(path, "w"))
            e = {"TRACE_FILE": path}
            e.update(env or {})
            r = run_tlc(module, env=e, workers=1, timeout=timeout, init="TInit", nxt="TNext",
                        postcondition="AllConsumed", constants=constants, heap=heap)
            vs = extract_printed(r["out"], tag)
            if r["error"] or len(vs) != hi - lo or "AllConsumed" in "".join(r["violated"]) or \
                    "Postcondition" in r["out"] and "violated" in r["out"].split("Postcondition")[-1][:200]:
                o = r["out"]
                ei = o.find("Error:")
                raise TLCError("batch %s chunk %d: %d verdicts for %d cases\n%s\n...\n%s" % (module, ci, len(vs), hi - lo, o[ei:ei + 1800] if ei >= 0 else "", o[-600:]))
            for v in vs:
                v[1] = v[1] + lo  # local 1-based -> global 1-based
            return vs, r
        t0 = time.time()
        with cf.ThreadPoolExecutor(max_workers=nproc) as ex:
            parts = list(ex.map(job, range(nchunks)))
        verdicts = [v for vs, _ in parts for v in vs]
        verdicts.sort(key=lambda v: v[1])
        stats = dict(states=sum(r["states"] for _, r in parts), distinct=sum(r["distinct"] for _, r in parts),
                     wall=time.time() - t0)
        if os.environ.get("VERIF_SELFTEST", "1") != "0" and not _in_selftest[0]:
            from . import selftest
            def runner(cs):
                _in_selftest[0] = True
                try:
                    return run_batch(module, cs, tag=tag, nproc=1, timeout=timeout, env=env, constants=constants, heap=heap)[0]
                finally:
                    _in_selftest[0] = False
            try:
                selftest.after_batch(module, cases, verdicts, runner)
            except TLCError as e:   # a corrupted case that makes TLC itself fail counts as rejected
                selftest.RESULTS[module] = {"corrupted": selftest.RESULTS.get(module, {}).get("corrupted", 0), "rejected": "TLC error (rejected)"}
        return verdicts, stats
    finally:
        shutil.rmtree(tmp, ignore_errors=True)
