"""Shared machinery for C04 / C11: persistence-image cases validated by TraceImage.tla."""
from fractions import Fraction
from . import tlc
from .common import EXACT_EMBS, Emb, unfl, run_driver_parallel
from .fix import fix


DEC7 = Emb(Fraction(7, 10), 0, False, "0.7*k (no shift)")
DEC35 = Emb(Fraction(7, 20), 0, False, "0.35*k (no shift)")


# linear_ramp parameter sets (low, high, start, end); the last two have NEGATIVE weights (legal: low/high are free real parameters)
RAMPS = [[0, 3, 2, 8], [1, 4, 0, 6], [0, 3, 2, 8], [1, 4, 0, 6], [-2, 3, 2, 8], [-1, -3, 0, 6]]


def gen_cfg(rng, prefer_ramp=False):
    kern = rng.choice(["uniform", "giso", "giso", "ganiso", "gcorr", "gcorrmarg"])
    if kern == "gcorrmarg":
        # correlated Gaussian, sd 2 ticks, 4x4 pixels of 10 ticks: the grid reaches >= 8 sd around points near its centre
        g = dict(b0=-20, p0=0, ps=10, rx=4, ry=4, kern="gcorr", ka=2, kb=2, rho=rng.choice([0.3, -0.5, 0.8, -0.85, 0.6, 0.95, -0.95, -0.97, 0.93]), absdecide=0, marg=1, form="matrix", central=True)
        wk = rng.choice(["pers", "ramp", "const"])
        g.update(wkind=wk, wn=1, ramp=rng.choice(RAMPS))
        return g
    ps = rng.choice([2, 4])
    g = dict(b0=rng.choice([0, -4, 2, 6]), p0=rng.choice([0, 2]), ps=ps, rx=rng.randint(2, 5), ry=rng.randint(2, 5))
    if kern == "uniform":
        g.update(kern="uniform", ka=rng.choice([2, 3, 4, 6]), kb=rng.choice([2, 4, 5]), absdecide=1)
    elif kern == "giso":
        sd = rng.choice([2, 4, 8])
        g.update(kern="gdiag", ka=sd, kb=sd, absdecide=1, form=rng.choice(["scalar", "matrix"]))
    elif kern == "ganiso":
        ka, kb = rng.choice([(4, 8), (8, 4), (2, 8), (8, 16), (16, 4)])
        g.update(kern="gdiag", ka=ka, kb=kb, absdecide=1, form="matrix")
    else:
        g.update(kern="gcorr", ka=rng.choice([4, 8]), kb=rng.choice([4, 8]), rho=rng.choice([0.3, -0.5, 0.8, -0.85]), absdecide=0, form="matrix")
    wk = rng.choice(["pers", "ramp", "ramp", "ramp"] if prefer_ramp else ["pers", "pers", "ramp", "const"])
    g.update(wkind=wk, wn=rng.choice([1, 2]) if wk == "pers" else 1, ramp=rng.choice(RAMPS), marg=0)
    return g


def gen_points(rng, g, n):
    even = 16 in (g["ka"], g["kb"])
    pts = []
    for _ in range(n):
        if g.get("central"):
            pts.append([rng.randint(-4, 4), rng.randint(16, 24)])
            continue
        b = rng.randint(g["b0"] - 6, g["b0"] + g["rx"] * g["ps"] + 6)
        p = rng.randint(1, g["p0"] + g["ry"] * g["ps"] + 6)
        if rng.random() < 0.08:
            p = -rng.randint(1, 4)        # a pair below the diagonal (death < birth): legal input, negative persistence in both input forms
        if even:
            b, p = b - b % 2, p + p % 2
        pts.append([b, p])
    return pts


def build(rng, e, with_jobs=False, special=None):
    g = gen_cfg(rng, prefer_ramp=(e.s == 1 and e.t == 0))     # integer-dtype containers go with this embedding: fractional ramp weights matter there
    if special == "bigdgm-iso":
        while not (g["kern"] == "gdiag" and g["ka"] == g["kb"]):
            g = gen_cfg(rng)
    if special == "finemesh":
        # a fine mesh under a correlated kernel: 35 x 35 = 1225 pixel corners go through the bivariate CDF in one call
        g = dict(b0=0, p0=0, ps=1, rx=34, ry=34, kern="gcorr", ka=4, kb=4, rho=rng.choice([0.3, -0.5, 0.8, -0.85]), absdecide=0, form="matrix",
                 wkind=rng.choice(["pers", "const"]), wn=1, ramp=RAMPS[0], marg=0)
    if not e.exact:
        # decimal scale: the requested ranges must be whole numbers of pixels IN FLOATS as well (quotient at most the intended count: a quotient
        # like 3.0000000000000004 legitimately gets a fourth pixel -- C12 -- and the grid would not be the one this check assumes)
        import math
        def fits(lo, cnt):
            q = (e.f(lo + cnt * g["ps"]) - e.f(lo)) / float(e.s * g["ps"])
            return math.ceil(q) == cnt
        for _ in range(50):
            if fits(g["b0"], g["rx"]) and (float(e.s * (g["p0"] + g["ry"] * g["ps"])) - float(e.s * g["p0"])) / float(e.s * g["ps"]) <= g["ry"] \
                    and math.ceil((float(e.s * (g["p0"] + g["ry"] * g["ps"])) - float(e.s * g["p0"])) / float(e.s * g["ps"])) == g["ry"]:
                break
            g = gen_cfg(rng)
        else:
            e = EXACT_EMBS[0]
    X, Y, Z = gen_points(rng, g, rng.randint(1, 4)), gen_points(rng, g, rng.randint(1, 4)), gen_points(rng, g, rng.randint(1, 3))
    if special in ("bigdgm", "bigdgm-iso"):
        X = gen_points(rng, g, rng.randint(33, 40))          # a diagram of several dozen pairs (real diagrams have hundreds)
    if rng.random() < 0.4:
        Y.append(list(X[0]))          # a point shared by X and Y: the union has a repeated pair
    U = X + Y
    Up = rng.sample(U, len(U))
    Xz = X + [[rng.randint(g["b0"], g["b0"] + g["rx"] * g["ps"]), 0] for _ in range(rng.randint(1, 2))]   # zero-persistence points
    if g.get("central"):
        Xz = X + [list(X[-1])]     # (a zero-persistence point would sit 10 sd from the grid's lower edge only for const weights; keep all points central)
    Xr = X + [list(X[0])]             # repeated pair inside one diagram
    bp = [X, Y, Z, U, Up, Xz, [], Xr]
    names = ["X", "Y", "Z", "X+Y", "perm(X+Y)", "X+zero-persistence", "empty", "X+repeat"]
    # table of (diagram as handed over, skew)
    as_bd = lambda pts: [[b, b + p] for b, p in pts]
    dgms, skews = [], []
    for pts in bp:
        dgms.append(as_bd(pts)); skews.append(1)
    dgms.append([list(p) for p in X]); skews.append(0); names.append("X as (birth,persistence), skew=False")
    s = e.s
    fd = lambda d, sk: [[e.f(b), e.f(dd) if sk else float(s * dd)] for b, dd in d]
    cfgf = dict(birth_range=[e.f(g["b0"]), e.f(g["b0"] + g["rx"] * g["ps"])], pers_range=[float(s * g["p0"]), float(s * (g["p0"] + g["ry"] * g["ps"]))],
                pixel_size=float(s * g["ps"]), kernel="uniform" if g["kern"] == "uniform" else "gaussian", ka=float(s * g["ka"]), kb=float(s * g["kb"]),
                weight=g["wkind"], wn=float(g["wn"]), ramp=[float(g["ramp"][0]), float(g["ramp"][1]), float(s * g["ramp"][2]), float(s * g["ramp"][3])])
    if g["kern"] != "uniform":
        va, vb = float(s * g["ka"]) ** 2, float(s * g["kb"]) ** 2
        if g.get("form") == "scalar":
            cfgf["sigma"] = va
        else:
            cov = g.get("rho", 0.0) * float(s * g["ka"]) * float(s * g["kb"])
            cfgf["sigma"] = [[va, cov], [cov, vb]]
    cfgf["via"] = rng.choice([None, None, "translate", "resize"])
    cfgf["ramp_int"] = int(rng.random() < 0.5)
    calls = []
    n = len(dgms)
    for i in range(n):
        if i != 6 or True:
            calls.append(dict(ids=[i], mode="single", skew=skews[i]))
    calls.append(dict(ids=[0, 1, 3, 6, 4], mode="list", skew=1))
    calls.append(dict(ids=[3], mode="list", skew=1))
    if with_jobs:
        calls.append(dict(ids=[0, 3, 1, 4], mode=rng.choice(["jobs1", "jobs2", "jobs4"]), skew=1))
        calls.append(dict(ids=[8, 8], mode=rng.choice(["jobs1", "jobs2"]), skew=0))      # workers must honour skew=False too
    job = dict(cfg=cfgf, dgms=[fd(d, sk) for d, sk in zip(dgms, skews)], calls=calls,
               intdtype=((True if rng.random() < 0.5 else "mixed") if (e.s == 1 and e.t == 0) else False))      # integer arrays are a supported input form
    return dict(g=g, dgms=dgms, skews=skews, names=names, job=job, emb=e)


def to_case(item, r):
    g, e = item["g"], item["emb"]
    conv = (lambda v: v / e.s ** g["wn"]) if g["wkind"] == "pers" else (lambda v: v)
    imgs = []
    for im in r["imgs"]:
        fin = 1
        rows = []
        for row in im["img"]:
            rr = []
            for x in row:
                v = unfl(x)
                if v != v or abs(v) == float("inf"):
                    fin = 0; rr.append(fix(0))
                else:
                    rr.append(fix(conv(Fraction(v))))
            rows.append(rr)
        imgs.append([item["dgms"][im["id"]], im["skew"], fin, im["shape"] if len(im["shape"]) == 2 else [-1, -1], rows])
    cfg = {k2: g[k2] for k2 in ("b0", "p0", "ps", "rx", "ry", "kern", "ka", "kb", "wkind", "wn", "ramp", "absdecide", "marg")}
    return dict(cfg=cfg, imgs=imgs), [(im["id"], im["mode"]) for im in r["imgs"]]


def run(ctx, mine, n, njobs_cases):
    rng = ctx.rng
    # (no diagonal shift on the persistence axis: k/4-3 is left out)  The decimal scales make range / pixel_size quotients that are NOT exact in
    # binary (4.2 / 1.4 = 2.9999999999999996): the pixel grid must still be the one the public attributes describe
    embs = [EXACT_EMBS[0], EXACT_EMBS[0], EXACT_EMBS[2], EXACT_EMBS[3], EXACT_EMBS[4], EXACT_EMBS[5], DEC7, DEC35]
    items = [build(rng, embs[i % len(embs)], with_jobs=(i < njobs_cases)) for i in range(n)]
    items += [build(rng, EXACT_EMBS[0], special=sp) for sp in ("bigdgm-iso", "bigdgm", "finemesh", "bigdgm-iso")]
    validate(ctx, items, mine, "V")


def validate(ctx, items, mine, label, nproc=12):
    results, _ = run_driver_parallel("images.py", [it["job"] for it in items], nproc=nproc)
    cases, idx, maps = [], [], []
    for i, (it, r) in enumerate(zip(items, results)):
        if "imgs" not in r:
            ctx.failure({"clause": mine + "-no-result", "detail": {k: r.get(k) for k in ("raised", "msg")}}, {"kind": "image", "g": it["g"], "emb": it["emb"].name, "dgms": it["dgms"]})
            continue
        c, mp = to_case(it, r)
        c["mine"] = mine
        cases.append(c); idx.append(i); maps.append(mp)
    verdicts, st = tlc.run_batch("TraceImage", cases, nproc=nproc, heap="3g")
    ctx.extra.setdefault("trace_validation_runs", []).append(dict(label=label, cases=len(cases), images=sum(len(c["imgs"]) for c in cases), tlc_states=st["states"], wall_s=round(st["wall"], 1)))
    for c, v, i, mp in zip(cases, verdicts, idx, maps):
        status, clause = v[2], v[3]
        it = items[i]
        ctx.count(len(c["imgs"]), key=(str(it["g"]), str(it["dgms"][:3]), it["emb"].name), nontrivial=True)
        if status == "ok":
            ctx.ok_trace()
            ctx.sample({"config_ticks": it["g"], "embedding": it["emb"].name, "diagrams": dict(zip(it["names"], it["dgms"])), "calls": [cl["mode"] for cl in it["job"]["calls"]], "verdict": "ok"}, cap=3)
        elif clause.startswith(mine):
            q = v[4]
            ctx.failure({"clause": clause, "kernel": it["g"]["kern"], "weight": it["g"]["wkind"]},
                        {"kind": "image", "g": it["g"], "emb": it["emb"].name, "dgms": it["dgms"], "skews": it["skews"], "names": it["names"],
                         "image": (mp[q - 1] if 0 < q <= len(mp) else None), "at": v[4:7], "job": it["job"]})
        else:
            ctx.extra["failures_owned_by_other_property"] = ctx.extra.get("failures_owned_by_other_property", 0) + 1
            ctx.traces_total += 1


ACC_INVS = ["TypeOK", "PartialIsDef", "ResultIsDef", "EmptyIsZero", "EmptyCollectionQuirk", "OneElementCollectionStaysAList", "NonNegativeBounded",
            "Additive", "OrderFree", "ZeroWeightNothing", "SkewFormIrrelevant", "CodedMassIsDefMass"]
ACC_GEOMS = [dict(RX=2, RY=2, PS=1, KW=1, KH=2), dict(RX=2, RY=3, PS=2, KW=2, KH=1), dict(RX=3, RY=2, PS=1, KW=4, KH=2)]


def accumulate_cases(calls, results, geom, mine):
    den = 4 * geom["KW"] * geom["KH"]
    cases = []
    for call, r in zip(calls, results):
        if "kind" not in r:
            cases.append(None); continue
        lat, imgs_ = 1, []
        for im in r["imgs"]:
            rows = []
            for row in im:
                rr = []
                for x in row:
                    v = Fraction(unfl(x)) * den if x not in ("nan", "inf", "-inf") else None
                    if v is None or v.denominator != 1 or abs(v) > 10 ** 8:
                        lat, v = 0, Fraction(0)
                    rr.append(int(v))
                rows.append(rr)
            imgs_.append(rows)
        cases.append(dict(mine=mine, argkind=call["argkind"], arg=call["arg"], skew=int(call["skew"]), njobs=call.get("njobs", 0), kind=r["kind"], imgs=imgs_, lattice=lat))
    return cases


def model_and_replay(ctx, mine, quick):
    """M: ImageAccumulate.tla (transform as a state machine) model-checked; R: every call of the model's initial-state set (dumped by
    TLC with the expected result) replayed on a real imager of the same geometry, serially and -- for a sample -- through joblib workers;
    the recorded results are decided by TraceAccumulate.tla with the model's own definitional operators."""
    import json, os
    from .common import mktempdir, run_driver_parallel as rdp
    rng = ctx.rng
    # C04 is about the pixel values of one diagram (more points, one diagram); C11 about collections and call styles
    cst = dict(ACC_GEOMS[0], MaxC=2, MaxPts=3, MaxDgms=1) if (mine == "C04" and quick) else dict(ACC_GEOMS[0], MaxC=2, MaxPts=2, MaxDgms=2)
    r = tlc.run_tlc("ImageAccumulate", workers=16, constants=cst, invariants=ACC_INVS, properties=["ArgUntouched"], heap="8g", timeout=7200)
    ctx.model("ImageAccumulate (transform as a state machine) %s" % cst, r, constants=cst)
    if not quick:
        for cst in (dict(ACC_GEOMS[1], MaxC=3, MaxPts=2, MaxDgms=2), dict(ACC_GEOMS[2], MaxC=2, MaxPts=3, MaxDgms=2)):
            r = tlc.run_tlc("ImageAccumulate", workers=16, constants=cst, invariants=ACC_INVS, properties=["ArgUntouched"], heap="10g", timeout=14400)
            ctx.model("ImageAccumulate %s" % cst, r, constants=cst)
    if mine == "C11":
        cst = dict(ACC_GEOMS[0], MaxC=1, MaxPts=2, MaxDgms=2)
        r = tlc.run_tlc("ImageAccumulate", workers=8, spec="FairSpec", constants=cst, properties=["Termination", "ArgUntouched"], heap="4g")
        ctx.model("ImageAccumulate liveness under WF (every call returns)", r, constants=cst)
    nokv = 0
    for gi, geom in enumerate(ACC_GEOMS if not quick else ACC_GEOMS[:2]):
        dump = os.path.join(mktempdir(prefix="accdump_"), "dump.json")
        cst = dict(geom, MaxC=2 if gi != 1 else 3, MaxPts=2, MaxDgms=2 if (gi == 0 and not (mine == "C04" and quick)) else 1)
        r = tlc.run_tlc("ImageAccumulate", workers=1, env={"DUMP_FILE": dump}, init="DumpInit", nxt="DumpNext", constants=cst, heap="6g", timeout=3600)
        if r["error"] or not os.path.exists(dump):
            ctx.machinery_errors.append("ImageAccumulate dump failed:\n" + r["out"][-1500:]); return
        dumped = json.load(open(dump)); os.remove(dump)
        ctx.extra.setdefault("spec_generated_transform_calls", []).append(dict(geometry=geom, calls=len(dumped)))
        rng.shuffle(dumped)
        sel = dumped[: (1500 if quick else 20000)]
        calls = [dict(argkind=c["argkind"], arg=c["arg"], skew=int(c["skew"]), njobs=0) for c in sel]
        # the same collections through joblib workers (process start-up is slow: a sample)
        colls = [c for c in calls if c["argkind"] == "coll" and len(c["arg"]) >= 1]
        calls += [dict(c, njobs=2) for c in colls[: (40 if quick else 400)]]
        chunks_ = [calls[i:i + 60] for i in range(0, len(calls), 60)]
        res, _ = rdp("accumulate.py", [dict(geom=geom, calls=ch) for ch in chunks_], nproc=12)
        flat = []
        for ch, rr in zip(chunks_, res):
            flat += rr["calls"] if "calls" in rr else [{"raised": str(rr)[:200]}] * len(ch)
        cases = accumulate_cases(calls, flat, geom, mine)
        for call, c, rr in zip(calls, cases, flat):
            if c is None:
                ctx.failure({"clause": mine + "-no-result", "detail": rr.get("raised")}, {"kind": "accumulate", "geom": geom, "call": call})
        good = [(call, c) for call, c in zip(calls, cases) if c is not None]
        verdicts, st = tlc.run_batch("TraceAccumulate", [c for _, c in good], nproc=12, constants=geom, heap="3g")
        ctx.extra.setdefault("trace_validation_runs", []).append(dict(label="R-accumulate", geometry=geom, cases=len(good), tlc_states=st["states"], wall_s=round(st["wall"], 1)))
        for (call, c), v in zip(good, verdicts):
            npts = len(call["arg"]) if call["argkind"] == "one" else sum(len(d) for d in call["arg"])
            ctx.count(1, key=("acc", gi, json.dumps(call)), nontrivial=npts >= 2)
            if v[2] == "ok":
                ctx.ok_trace(); nokv += 1
                if nokv <= 2:
                    ctx.sample({"geometry": geom, "call": call, "result_kind": c["kind"], "numerators_over_%d" % (4 * geom["KW"] * geom["KH"]): c["imgs"][:2], "verdict": "ok"}, cap=8)
            elif v[3].startswith(mine) or v[3] == "value-off-lattice":
                ctx.failure({"clause": v[3], "call_style": ("one diagram" if call["argkind"] == "one" else "collection") + (", n_jobs=%d" % call["njobs"] if call["njobs"] else "")},
                            {"kind": "accumulate", "geom": geom, "call": call})
            else:
                ctx.extra["failures_owned_by_other_property"] = ctx.extra.get("failures_owned_by_other_property", 0) + 1
                ctx.traces_total += 1


def replay_accumulate(ctx, rec, mine):
    from .common import run_driver
    c = rec["case"]
    rr = run_driver("accumulate.py", {"jobs": [dict(geom=c["geom"], calls=[c["call"]])]})["results"][0]
    cases = accumulate_cases([c["call"]], rr.get("calls", [{}]), c["geom"], mine)
    if cases[0] is None:
        ctx.failure({"clause": mine + "-no-result"}, c); return
    v, _ = tlc.run_batch("TraceAccumulate", cases, nproc=1, constants=c["geom"])
    if v[0][2] == "ok":
        ctx.ok_trace()
    else:
        ctx.failure({"clause": v[0][3]}, c)


def replay(ctx, rec, mine):
    if rec["case"].get("kind") == "accumulate":
        return replay_accumulate(ctx, rec, mine)
    c = rec["case"]
    e = next(x for x in EXACT_EMBS + [DEC7, DEC35] if x.name == c["emb"])
    it = dict(g=c["g"], dgms=c["dgms"], skews=c.get("skews", [1] * len(c["dgms"])), names=c.get("names", [str(i) for i in range(len(c["dgms"]))]), job=c["job"], emb=e)
    validate(ctx, [it], mine, "replay", nproc=1)
