"""Shared machinery for C02 / C06 (Wasserstein): model runs, R and V legs, TLC validation via TraceWasserstein."""
import json, os, tempfile, math
import numpy as np
from fractions import Fraction
from . import tlc
from .common import EXACT_EMBS, DEC_EMBS, EXTREME_EMBS, unfl, run_driver_parallel
from .dgm import gen_dgm, to_float_dgm, fin
from .fix import fix, fix_trunc_from_int, SCALE


def sqrt_half_fix(Q):
    return fix_trunc_from_int(math.isqrt(Q * SCALE * SCALE // 2))


def sqrt_half_frac(Q):
    return Fraction(math.isqrt(Q * SCALE * SCALE // 2), SCALE)


def tables(PX, PY):
    cpp = [[2 * ((p[0] - q[0]) ** 2 + (p[1] - q[1]) ** 2) for q in PY] for p in PX]
    cds = [(p[1] - p[0]) ** 2 for p in PX]
    cdt = [(q[1] - q[0]) ** 2 for q in PY]
    return cpp, cds, cdt


def dual_certificate(X, Y):
    """Optimal perfect matching of the augmented problem + dual potentials (floats -> Fractions).
    Uses scipy's assignment solver on the harness' own matrix, then Bellman-Ford on the residual graph."""
    from scipy.optimize import linear_sum_assignment
    m, n = len(X), len(Y)
    N = m + n
    BIG = 1e18
    C = np.full((N, N), BIG)
    for i, p in enumerate(X):
        for j, q in enumerate(Y):
            C[i, j] = math.sqrt((p[0] - q[0]) ** 2 + (p[1] - q[1]) ** 2)
        C[i, n + i] = (p[1] - p[0]) / math.sqrt(2)
    for j, q in enumerate(Y):
        C[m + j, j] = (q[1] - q[0]) / math.sqrt(2)
    C[m:, n:] = 0.0
    ri, ci = linear_sum_assignment(C)
    pm = [int(c) + 1 for c in ci]
    # potentials: v_j = shortest distance in the residual graph (columns as nodes)
    # edge col a -> col b with weight C[row_of(a), b] - C[row_of(a), a]   (reassign row matched to a onto b)
    row_of = {int(c): int(r) for r, c in zip(ri, ci)}
    fin_mask = C < BIG / 2
    v = np.zeros(N)
    for _ in range(N + 1):
        changed = False
        for a in range(N):
            r = row_of[a]
            w = np.where(fin_mask[r], C[r] - C[r, a] + v[a], np.inf)
            upd = w < v - 1e-13
            if upd.any():
                v = np.where(upd, w, v)
                changed = True
        if not changed:
            break
    u = np.array([C[r, ci[r]] - v[ci[r]] for r in range(N)])
    return pm, [Fraction(float(x)) for x in u], [Fraction(float(x)) for x in v]


def build_case(S, T, emb, res, brute_max=3, dual=False):
    X, Y = fin(S), fin(T)
    pad = (0 - emb.t) / emb.s
    PX = X or [(int(pad), int(pad))]
    PY = Y or [(int(pad), int(pad))]
    cpp, cds, cdt = tables(PX, PY)
    c = dict(S=S, T=T, pad=int(pad), cpp=[[sqrt_half_fix(q) for q in row] for row in cpp],
             cdS=[sqrt_half_fix(q) for q in cds], cdT=[sqrt_half_fix(q) for q in cdt],
             brute=int(len(X) <= brute_max and len(Y) <= brute_max), tol="e12" if emb.exact else "e9", dual=0, pm=[], u=[], v=[])
    if dual and len(X) + len(Y) >= 1:
        pm, u, v = dual_certificate(X, Y)
        c.update(dual=1, pm=pm, u=[fix(x) for x in u], v=[fix(x) for x in v])
    vals = [unfl(res["dist"])] + ([unfl(res["distm"])] + [unfl(r[2]) for r in res["rows"]] if "rows" in res else [])
    finite = all(v == v and abs(v) != float("inf") for v in vals)
    c["finite"] = int(finite)
    tk = lambda v: fix(Fraction(v) / emb.s) if finite else fix(0)
    c["dist"] = tk(vals[0])
    if "rows" in res:
        c["hasrows"], c["distm"] = 1, tk(vals[1])
        c["rows"] = [[r[0], r[1], tk(unfl(r[2]))] for r in res["rows"]]
    else:
        c["hasrows"], c["distm"], c["rows"] = 0, fix(0), []
    c["warn"] = res.get("warn", [0, 0])
    return c


def mixes(X, Y):
    """non-trivial by the property's own rationale: some diagonal and some cross pairing plausible"""
    return len(X) >= 1 and len(Y) >= 1 and any(b != d for b, d in X + Y)


def validate(ctx, pairs, embs, label, mine, nproc=12, dual=False):
    jobs = [dict(fn="wasserstein", S=to_float_dgm(S, e), T=to_float_dgm(T, e), matching=True,
                 container=("list" if i % 5 == 0 and all(p[2] for p in S + T) and S and T else "array"))
            for i, ((S, T), e) in enumerate(zip(pairs, embs))]
    # integer-valued finite diagrams also arrive in integer dtypes (unsigned and narrow ones included), the smallest that holds them by turns
    for i, j in enumerate(jobs):
        vals = [v for d in (j["S"], j["T"]) for p in d for v in p]
        if i % 3 == 1 and j["S"] and j["T"] and all(v == v and abs(v) != float("inf") and float(v).is_integer() for v in vals):
            for kind, lo, hi in [("uint8", 0, 255), ("int8", -128, 127), ("uint16", 0, 65535), ("int16", -32768, 32767), ("int32", -2 ** 31, 2 ** 31 - 1), ("int64", -2 ** 62, 2 ** 62)][(i // 3) % 2::2]:
                if all(lo <= v <= hi for v in vals):
                    j["container"] = kind
                    break
    results, seeds = run_driver_parallel("distances.py", jobs, nproc=nproc)
    cases, idx = [], []
    for i, ((S, T), e, r) in enumerate(zip(pairs, embs, results)):
        if "dist" not in r:
            if r.get("machinery"):
                ctx.machinery_errors.append("driver: %s" % r)
                continue
            ctx.failure({"clause": mine + "-no-result", "detail": {k: r.get(k) for k in ("raised", "msg", "noresult")}},
                        {"kind": "wasserstein", "S": S, "T": T, "emb": e.name})
            continue
        if r.get("rows_raised") and mine == "C06":
            ctx.failure({"clause": "C06-no-matching-result", "detail": r["rows_raised"]}, {"kind": "wasserstein", "S": S, "T": T, "emb": e.name})
            continue
        cases.append(dict(build_case(S, T, e, r, dual=dual), mine=mine))
        idx.append(i)
    verdicts, st = tlc.run_batch("TraceWasserstein", cases, nproc=nproc)
    ctx.extra.setdefault("trace_validation_runs", []).append(dict(label=label + "/wasserstein", cases=len(cases), tlc_states=st["states"], wall_s=round(st["wall"], 1)))
    for c, v, i in zip(cases, verdicts, idx):
        status, clause = v[2], v[3]
        S, T = pairs[i]
        X, Y = fin(S), fin(T)
        key = ("W", tuple(map(tuple, sorted(X))), tuple(map(tuple, sorted(Y))), embs[i].name)
        ctx.count(1, key=key, nontrivial=mixes(X, Y))
        cname = clause if isinstance(clause, str) else clause[0]
        if status == "machinery":
            ctx.machinery_errors.append("certificate rejected by spec (%s) on S=%s T=%s" % (cname, S, T))
        elif status == "ok":
            ctx.ok_trace()
            ctx.sample({"fn": "wasserstein", "S_ticks": S, "T_ticks": T, "embedding": embs[i].name, "rows": [[r[0], r[1]] for r in c["rows"]][:6],
                        "decided_by": ("brute force over all partial pairings" if c["brute"] else "") + (" LP dual certificate" if c["dual"] else ""), "verdict": "ok"}, cap=3)
        elif cname.startswith(mine):
            ctx.failure({"clause": cname}, {"kind": "wasserstein", "S": S, "T": T, "emb": embs[i].name})
        else:
            ctx.extra["failures_owned_by_other_property"] = ctx.extra.get("failures_owned_by_other_property", 0) + 1
            ctx.traces_total += 1


def all_embs():
    return EXACT_EMBS + DEC_EMBS + EXTREME_EMBS


def run(ctx, mine):
    quick = ctx.tier == "quick"
    runs = [dict(MaxS=2, MaxT=2, MaxC=2)] if quick else [dict(MaxS=2, MaxT=2, MaxC=3), dict(MaxS=2, MaxT=3, MaxC=2), dict(MaxS=3, MaxT=2, MaxC=2)]
    for cst in runs:
        inv = ["Optimal"] if mine == "C02" else ["CertifiesInv"]
        r = tlc.run_tlc("Wasserstein", workers=16, constants=cst, invariants=inv, heap="8g", timeout=7200)
        ctx.model("Wasserstein %s %s" % (cst, inv), r, constants=cst)
    if mine == "C02":
        ctx.liveness("Wasserstein", dict(MaxS=2, MaxT=2, MaxC=2), ["Termination"])
    rng = ctx.rng
    embs_all = all_embs()
    # R: the lattice diagrams (<=3 points on B=3) as in Bottleneck.tla's Init, sampled pairs; brute force decides
    import itertools
    coords = [(b, d) for b in range(4) for d in range(b, 4)]
    def rnd_small(nmax):
        n = rng.randint(0, nmax)
        return [[*rng.choice(coords), 1] for _ in range(n)]
    nR = 1500 if quick else 20000
    pairs = [(rnd_small(3), rnd_small(3)) for _ in range(nR)]
    embs = [embs_all[i % len(embs_all)] for i in range(len(pairs))]
    validate(ctx, pairs, embs, "R", mine)
    # V: larger lattice, <=3 points each (brute force) and medium sizes with LP-dual certificates
    nV = 800 if quick else 8000
    pairs = []
    for i in range(nV):
        tmax = rng.choice([4, 6, 10, 30])
        pairs.append((gen_dgm(rng, 3, tmax), gen_dgm(rng, 3, tmax)))
    embs = [embs_all[i % len(embs_all)] for i in range(len(pairs))]
    validate(ctx, pairs, embs, "V-brute", mine)
    nD, nmax = (250, 9) if quick else (2500, 30)
    pairs = []
    for i in range(nD):
        tmax = rng.choice([6, 10, 30])
        pairs.append((gen_dgm(rng, nmax, tmax), gen_dgm(rng, nmax, tmax)))
    embs = [embs_all[i % len(embs_all)] for i in range(len(pairs))]
    validate(ctx, pairs, embs, "V-dual", mine, dual=True)


def replay(ctx, rec, mine):
    c = rec["case"]
    e = next(x for x in all_embs() if x.name == c["emb"])
    validate(ctx, [(c["S"], c["T"])], [e], "replay", mine, nproc=1, dual=True)
