"""Python side of spec/Fix.tla: exact conversion of rationals/floats to limb records."""
from fractions import Fraction

B, FR = 10000, 4
SCALE = B ** FR


def limbs(n):
    out = []
    while n:
        out.append(n % B)
        n //= B
    return out


def fix(x):
    """Fraction/float/int -> Fix record, rounded to nearest 1e-16 (round half away from zero)."""
    fx = Fraction(x)
    s = -1 if fx < 0 else 1
    n = abs(fx) * SCALE
    q = (2 * n.numerator + n.denominator) // (2 * n.denominator)
    return {"s": s, "m": limbs(int(q))}


def fix_trunc_from_int(n):
    """scaled integer (value * 10^16) -> Fix record"""
    return {"s": -1 if n < 0 else 1, "m": limbs(abs(n))}


def unfix(r):
    n = 0
    for i, l in enumerate(r["m"]):
        n += l * B ** i
    return Fraction(r["s"] * n, SCALE)
