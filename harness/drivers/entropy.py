import numpy as np
from _base import fl, serve
from persim.persistent_entropy import persistent_entropy


def handler(job):
    dgms = [np.array(d, dtype=float).reshape(-1, 2) for d in job["dgms"]]
    before = [d.tobytes() for d in dgms]
    arg = dgms if job["islist"] else dgms[0]

    def call(j):
        # the flags as a caller may hold them: Python bools, NumPy bools (the result of an np.any / np.isinf test) or the integers 0 / 1
        ft = {0: bool, 1: np.bool_, 2: int}[job.get("flagtype", 0)]
        kw = dict(keep_inf=ft(j["keepinf"]), normalize=ft(j["normalize"]))
        if j["hasvi"]:
            kw["val_inf"] = j["vi"]
        o = {}
        try:
            with np.errstate(all="ignore"):
                r = persistent_entropy(arg, **kw)
            o["vals"] = [fl(x) for x in np.asarray(r, dtype=float).ravel()]
        except Exception as e:
            o["raised_in"] = type(e).__name__ + ": " + str(e)[:100]
        return o
    out = call(job)
    if job.get("second"):          # a second call on the SAME arrays with other flags
        out["second"] = call(job["second"])
    out["mutated"] = [d.tobytes() for d in dgms] != before
    return out


serve(handler)
