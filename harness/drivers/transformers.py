import hashlib, numpy as np
from _base import serve, fl
from persim import PersistenceLandscaper, PersistenceImager


def dig(a):
    a = np.asarray(a)
    if a.dtype.kind in "USO":   # e.g. the approximate landscape's "empty" sentinel
        h = hashlib.sha256(repr(a.tolist()).encode()).digest()
        return int.from_bytes(h[:4], "big") >> 1
    a = np.ascontiguousarray(np.asarray(a, dtype=float))
    a = np.where(a == 0, 0.0, a)  # -0.0 == 0.0
    h = hashlib.sha256(str(a.shape).encode() + a.tobytes()).digest()
    return int.from_bytes(h[:4], "big") >> 1


def dig_state(at):
    h = hashlib.sha256(repr(at).encode()).digest()
    return int.from_bytes(h[:4], "big") >> 1


def handler(job):
    sets = job["datasets"]   # list of collections; each collection = list of diagrams (lists of [b, d])
    cache = {}
    def data(i):
        # ONE set of array objects per data set for the whole history (a caller who keeps his diagrams and calls the estimator repeatedly):
        # a call that writes into its arguments changes what the later calls see
        if i not in cache:
            arrs, seen = [], {}
            for d in sets[i]:
                key = repr(d)
                if job.get("share_equal") and key in seen:
                    arrs.append(seen[key])          # a collection in which the SAME array object occurs more than once (resampling with replacement)
                else:
                    a_ = np.array(d, dtype=float).reshape(-1, 2)
                    seen[key] = a_; arrs.append(a_)
            cache[i] = arrs
        return cache[i]
    evs = []
    if job["kind"] == "landscaper":
        kw = dict(hom_deg=job["hom_deg"], num_steps=job["num_steps"], flatten=bool(job["flatten"]))
        if job["start"] is not None:
            kw["start"] = job["start"]
        if job["stop"] is not None:
            kw["stop"] = job["stop"]
        est = PersistenceLandscaper(**kw)
        attrs = lambda: [None if est.start is None else fl(est.start), None if est.stop is None else fl(est.stop)]
        init = attrs()
        for op, ds in job["ops"]:
            X = data(ds)
            before = [x.tobytes() for x in X]
            if op == 4:
                est.set_params(num_steps=est.num_steps); outs = []       # scikit-learn's set_params on a parameter other than the bounds (same value)
            elif op == 1:
                est.fit(X); outs = []
            elif op == 2:
                outs = [[ds, dig(est.transform(X))]]
            else:
                outs = [[ds, dig(est.fit_transform(X))]]
            evs.append(dict(op=op, ds=ds, attrs=attrs(), statekey=dig_state(attrs()), outs=outs, mutated=[x.tobytes() for x in X] != before))
    else:
        est = PersistenceImager(birth_range=tuple(job["birth_range"]), pers_range=tuple(job["pers_range"]), pixel_size=job["pixel_size"],
                                kernel_params={"sigma": job["sigma"]})
        attrs = lambda: [fl(est.pixel_size), fl(est.birth_range[0]), fl(est.birth_range[1]), fl(est.pers_range[0]), fl(est.pers_range[1]),
                         fl(est.width), fl(est.height), int(est.resolution[0]), int(est.resolution[1])]
        skew = bool(job.get("skew", 1))            # False: the data are handed over as (birth, persistence) pairs in every call of the history
        njobs = job.get("njobs") or [0] * len(job["ops"])
        init = attrs()
        for (op, ds), nj in zip(job["ops"], njobs):
            X = data(ds)
            single = len(X) == 1 and job.get("single_as_array", True)
            arg = X[0] if single else X
            before = [x.tobytes() for x in X]
            empties_ok = 1
            if op == 1:
                est.fit(arg, skew=skew); outs = []
            else:
                if op == 2 and not single and job.get("empties"):
                    # empty diagrams in front of and between the others: their images are all-zero and everybody keeps his place
                    E = np.zeros((0, 2))
                    Xe, pos = [E], []
                    for x in X:
                        pos.append(len(Xe)); Xe.append(x); Xe.append(E)
                    r = est.transform(Xe, skew=skew, n_jobs=nj) if nj else est.transform(Xe, skew=skew)
                    r = list(r)
                    empties_ok = int(len(r) == len(Xe) and all(not np.any(np.asarray(r[q])) for q in range(len(Xe)) if q not in pos))
                    r = [r[q] for q in pos] if len(r) == len(Xe) else r
                elif op == 2:
                    r = est.transform(arg, skew=skew, n_jobs=nj) if (nj and not single) else est.transform(arg, skew=skew)
                else:
                    r = est.fit_transform(arg, skew=skew)
                imgs = [r] if single else list(r)
                outs = [[1000 * ds + j, dig(im)] for j, im in enumerate(imgs)]
            evs.append(dict(op=op, ds=ds, attrs=attrs(), statekey=dig_state(attrs()), outs=outs, mutated=[x.tobytes() for x in X] != before, empties_ok=empties_ok))
    return {"events": evs, "init": init}


serve(handler)
