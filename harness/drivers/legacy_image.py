import warnings, numpy as np
from _base import fl, serve
warnings.simplefilter("ignore")
from persim import PersImage


def handler(job):
    kw = dict(pixels=(job["nx"], job["ny"]), verbose=False)
    if job["hasspecs"]:
        kw["specs"] = {"maxBD": job["maxBD"], "minBD": job["minBD"]}
    if job["sp"]:
        kw["spread"] = job["sp"]
    with warnings.catch_warnings():
        warnings.simplefilter("ignore")
        pim = PersImage(**kw)
    out = []
    for d in job["dgms"]:
        a = np.array(d, dtype=float).reshape(-1, 2)
        before = a.tobytes()
        img = np.asarray(pim.transform(a), dtype=float)
        # undo the final `img.T[::-1]` of the code: img_code = raw.T[::-1]  =>  raw = img_code[::-1].T
        raw = img[::-1].T
        out.append({"img": [[fl(x) for x in row] for row in raw], "shape": list(raw.shape), "mutated": a.tobytes() != before})
    return {"imgs": out}


serve(handler)
