"""Driver base: read jobs on stdin, call handler per job under a CPU-time budget, print one JSON line."""
import json, sys, signal, warnings, resource, os


class NoResult(Exception):
    pass


def _alarm(signum, frame):
    raise NoResult("cpu budget exceeded")


def serve(handler, budget_s=120):
    payload = json.load(sys.stdin)
    out = []
    signal.signal(signal.SIGVTALRM, _alarm)
    for job in payload["jobs"]:
        signal.setitimer(signal.ITIMER_VIRTUAL, budget_s)
        try:
            with warnings.catch_warnings(record=True) as w:
                # "always" is APPENDED: it catches everything the filters in force let through (repeats included), while a filter installed
                # in front of it -- by the package itself at import time, say -- still silences what it silences for a user
                warnings.simplefilter("always", append=True)
                res = handler(job)
                if isinstance(res, dict):
                    res.setdefault("warnings", [str(x.message) for x in w if not issubclass(x.category, (DeprecationWarning, SyntaxWarning))])
        except NoResult:
            res = {"noresult": True}
        except RecursionError as e:
            res = {"machinery": "RecursionError"}
        except Exception as e:  # the exception itself is an observation
            res = {"raised": type(e).__name__, "msg": str(e)[:300]}
        finally:
            signal.setitimer(signal.ITIMER_VIRTUAL, 0)
        out.append(res)
    sys.stdout.write("\n" + json.dumps({"results": out}) + "\n")


def fl(x):
    """float -> JSON-safe exact representation (hex) so the harness decodes without loss."""
    x = float(x)
    if x != x:
        return "nan"
    if x in (float("inf"), float("-inf")):
        return "inf" if x > 0 else "-inf"
    return x.hex()
