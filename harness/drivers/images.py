import numpy as np
from _base import fl, serve
from persim import PersistenceImager


def const_weight(birth, pers):
    return np.ones(len(birth))


def handler(job):
    g = job["cfg"]
    kw = dict(birth_range=tuple(g["birth_range"]), pers_range=tuple(g["pers_range"]), pixel_size=g["pixel_size"])
    if g["kernel"] == "uniform":
        kw.update(kernel="uniform", kernel_params={"width": g["ka"], "height": g["kb"]})
    else:
        kw.update(kernel="gaussian", kernel_params={"sigma": g["sigma"]})
    if g["weight"] == "const":
        kw.update(weight=const_weight, weight_params={})
    elif g["weight"] == "pers":
        kw.update(weight="persistence", weight_params={"n": g["wn"]})
    else:
        rp = list(g["ramp"])
        if g.get("ramp_int"):      # the levels (and whole-number break points) typed as Python ints, as in {"low": 0, "high": 1, "start": 0, "end": 1}
            rp = [int(x) if float(x).is_integer() else x for x in rp]
        kw.update(weight="linear_ramp", weight_params=dict(zip(("low", "high", "start", "end"), rp)))
    via = g.get("via")
    if via:
        # history: the imager is built for ANOTHER window and the target ranges are assigned afterwards (translate: same pixel counts,
        # the window only moves; resize: the pixel counts change); the image must be that of the configuration the attributes report
        ps = g["pixel_size"]
        tb, tp = kw["birth_range"], kw["pers_range"]
        if via == "translate":
            kw["birth_range"] = (tb[0] + 3 * ps, tb[1] + 3 * ps); kw["pers_range"] = (tp[0] + 2 * ps, tp[1] + 2 * ps)
        else:
            kw["birth_range"] = (tb[0], tb[0] + ps); kw["pers_range"] = (tp[0] - ps, tp[0] + ps)
        pim = PersistenceImager(**kw)
        pim.birth_range = tb
        pim.pers_range = tp
    else:
        pim = PersistenceImager(**kw)
    out = {"attrs": [fl(pim.birth_range[0]), fl(pim.pers_range[0]), fl(pim.pixel_size), int(pim.resolution[0]), int(pim.resolution[1])], "imgs": []}
    # intdtype: True = every diagram as an integer array; "mixed" = diagrams 0, 4, 5, 7 integer and the others float (the same points
    # must give the same image whatever the container's dtype)
    it = job.get("intdtype")
    D = [np.array(d, dtype=(np.int64 if (it is True or (it == "mixed" and i in (0, 4, 5, 7))) else float)).reshape(-1, 2) for i, d in enumerate(job["dgms"])]
    for call in job["calls"]:
        ids, mode, skew = call["ids"], call["mode"], bool(call["skew"])
        ds = [D[i] for i in ids]      # the SAME array objects are handed over in every call (history matters)
        before = [d.tobytes() for d in ds]
        if mode == "single":
            r = [pim.transform(ds[0], skew=skew)]
        elif mode == "list":
            r = pim.transform(ds, skew=skew)
        elif mode.startswith("jobs"):
            r = pim.transform(ds, skew=skew, n_jobs=int(mode[4:]))
        elif mode == "fit_transform_fixedgrid":
            r = pim.transform(ds, skew=skew)
        for i, im in zip(ids, r):
            im = np.asarray(im, dtype=float)
            out["imgs"].append({"id": i, "mode": mode, "skew": int(skew), "shape": list(im.shape), "img": [[fl(x) for x in row] for row in im] if im.ndim == 2 else []})
        out.setdefault("mutated", False)
        out["mutated"] = out["mutated"] or [d.tobytes() for d in ds] != before
    return out


serve(handler)
