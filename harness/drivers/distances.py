import numpy as np, warnings
from _base import serve, fl
import persim
from persim import _verif


def arr(x, kind):
    if kind == "list":
        return [list(map(float, r)) for r in x]
    a = np.array(x, dtype=float).reshape(-1, 2)
    return a


def handler(job):
    fn = job["fn"]
    S, T = arr(job["S"], job.get("container", "array")), arr(job["T"], job.get("container", "array"))
    out = {}
    if fn in ("bottleneck", "wasserstein"):
        f = getattr(persim, fn)
        _verif.drain()
        with warnings.catch_warnings(record=True) as w:
            warnings.simplefilter("always")
            d = f(S, T)
        evs = _verif.drain()
        out["dist"] = fl(d)
        out["warn"] = [int(any("dgm1" in str(x.message) for x in w)), int(any("dgm2" in str(x.message) for x in w))]
        if job.get("matching", True):
            try:
                with warnings.catch_warnings(record=True):
                    warnings.simplefilter("always")
                    dm, rows = f(S, T, matching=True)
                out["distm"] = fl(dm)
                rows = np.asarray(rows)
                out["rows"] = [[int(r[0]), int(r[1]), fl(r[2])] for r in rows.reshape(-1, 3)] if rows.size else []
            except Exception as ex:
                out["rows_raised"] = type(ex).__name__ + ": " + str(ex)[:200]
            _verif.drain()
        if fn == "bottleneck" and evs:
            n = None
            probes = []
            for e in evs:
                if e["event"] == "matrix":
                    n = e["M"] + e["N"]
                    if n <= 8 and job.get("want_matrix"):
                        out["D"] = [[fl(x) for x in row] for row in e["D"]]
                elif e["event"] == "probe":
                    probes.append([e["n_ds"], e["idx"], int(e["res_len"] == 2 * n), fl(e["d"])])
            out["probes"] = probes
    elif fn == "heat":
        out["dist"] = fl(persim.heat(S, T, sigma=job["sigma"]))
    elif fn == "sliced":
        out["dist"] = fl(persim.sliced_wasserstein(S, T, M=job["M"]))
    return out


serve(handler)
