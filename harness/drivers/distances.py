import numpy as np, warnings
from _base import serve, fl
import persim
from persim import _verif


def arr(x, kind):
    if kind == "list":
        return [list(map(float, r)) for r in x]
    if kind in ("uint8", "int8", "uint16", "int16", "int32", "uint32", "int64"):
        return np.array([[int(v) for v in r] for r in x], dtype=kind).reshape(-1, 2)
    a = np.array(x, dtype=float).reshape(-1, 2)
    return a


def session(job):
    """all n*n calls of a session on the SAME argument objects (built once): float64 arrays, integer-dtype arrays or nested lists"""
    kind = job["container"]
    def mk(x):
        if kind == "list":
            return [[float(v) for v in r] for r in x]
        if kind == "intlist":
            return [[int(v) for v in r] for r in x]
        if kind == "int":
            return np.array([[int(v) for v in r] for r in x], dtype=np.int64).reshape(-1, 2)
        if kind in ("uint8", "int8", "uint16", "int16", "int32", "uint32"):      # narrow / unsigned integer dtypes (image grey levels, counters)
            return np.array([[int(v) for v in r] for r in x], dtype=kind).reshape(-1, 2)
        if kind == "float32":
            return np.array(x, dtype=np.float32).reshape(-1, 2)
        return np.array(x, dtype=float).reshape(-1, 2)
    objs = [mk(d) for d in job["D"]]
    snap = [repr(o) if isinstance(o, list) else o.tobytes() for o in objs]
    dist = job["dist"]
    def calls():
        out = []
        for i in range(len(objs)):
            for j in range(len(objs)):
                try:
                    with warnings.catch_warnings():
                        warnings.simplefilter("ignore")
                        if dist == "sliced":
                            v = persim.sliced_wasserstein(objs[i], objs[j], M=job["M"])
                        elif dist == "heat":
                            v = persim.heat(objs[i], objs[j], sigma=job["sigma"])
                        else:
                            v = getattr(persim, dist)(objs[i], objs[j])
                    out.append({"dist": fl(v)})
                except Exception as ex:
                    out.append({"raised": type(ex).__name__ + ": " + str(ex)[:120]})
        return out
    out = calls()
    mutated = [k for k, o in enumerate(objs) if (repr(o) if isinstance(o, list) else o.tobytes()) != snap[k]]
    res = {"dists": out, "mutated": mutated}
    if job.get("D2"):      # overwrite every argument object IN PLACE (same objects, same shapes) and make all calls again
        for o, new in zip(objs, job["D2"]):
            fresh = mk(new)
            if isinstance(o, list):
                for row, nrow in zip(o, fresh):
                    row[:] = nrow
            elif o.size:
                o[...] = fresh
        res["dists2"] = calls()
    return res


def handler(job):
    fn = job["fn"]
    if fn == "session":
        return session(job)
    S, T = arr(job["S"], job.get("container", "array")), arr(job["T"], job.get("container", "array"))
    out = {}
    if fn in ("bottleneck", "wasserstein"):
        f = getattr(persim, fn)
        _verif.drain()
        with warnings.catch_warnings(record=True) as w:
            warnings.simplefilter("always", append=True)       # (appended: a filter the package installs in front still applies, as it does for a user)
            d = f(S, T)
        evs = _verif.drain()
        out["dist"] = fl(d)
        out["warn"] = [int(any("dgm1" in str(x.message) for x in w)), int(any("dgm2" in str(x.message) for x in w))]
        if job.get("matching", True):
            try:
                with warnings.catch_warnings(record=True):
                    warnings.simplefilter("always")
                    dm, rows = f(S, T, matching=True)
                out["distm"] = fl(dm)
                rows = np.asarray(rows)
                out["rows"] = [[int(r[0]), int(r[1]), fl(r[2])] for r in rows.reshape(-1, 3)] if rows.size else []
            except Exception as ex:
                out["rows_raised"] = type(ex).__name__ + ": " + str(ex)[:200]
            _verif.drain()
        if fn == "bottleneck" and evs:
            n = None
            probes = []
            for e in evs:
                if e["event"] == "matrix":
                    n = e["M"] + e["N"]
                    if n <= 8 and job.get("want_matrix"):
                        out["D"] = [[fl(x) for x in row] for row in e["D"]]
                elif e["event"] == "probe":
                    probes.append([e["n_ds"], e["idx"], int(e["res_len"] == 2 * n), fl(e["d"])])
            out["probes"] = probes
    elif fn == "heat":
        out["dist"] = fl(persim.heat(S, T, sigma=job["sigma"]))
    elif fn == "sliced":
        out["dist"] = fl(persim.sliced_wasserstein(S, T, M=job["M"]))
    return out


serve(handler)
