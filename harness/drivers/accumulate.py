import numpy as np
from _base import serve, fl
from persim import PersistenceImager


def handler(job):
    g = job["geom"]
    pim = PersistenceImager(birth_range=(0.0, float(g["RX"] * g["PS"])), pers_range=(0.0, float(g["RY"] * g["PS"])), pixel_size=float(g["PS"]),
                            kernel="uniform", kernel_params={"width": float(g["KW"]), "height": float(g["KH"])}, weight="persistence", weight_params={"n": 1.0})
    out = {"calls": []}
    for call in job["calls"]:
        mk = lambda d: np.array(d, dtype=float).reshape(-1, 2)
        arg = mk(call["arg"]) if call["argkind"] == "one" else [mk(d) for d in call["arg"]]
        kw = dict(skew=bool(call["skew"]))
        if call.get("njobs"):
            kw["n_jobs"] = call["njobs"]
        try:
            r = pim.transform(arg, **kw)
        except Exception as e:
            out["calls"].append({"raised": type(e).__name__ + ": " + str(e)[:100]}); continue
        if isinstance(r, np.ndarray) and r.ndim == 2:
            kind, imgs = "image", [r]
        elif isinstance(r, (list, tuple)):
            kind, imgs = "list", [np.asarray(x) for x in r]
        else:
            kind, imgs = "other", []
        out["calls"].append({"kind": kind, "imgs": [[[fl(v) for v in row] for row in im] if im.ndim == 2 else [] for im in imgs]})
    return out


serve(handler)
