import numpy as np
from _base import serve, fl
import persim
from persim import _verif
from persim.landscapes.exact import PersLandscapeExact


def handler(job):
    dgms = [np.array(d, dtype=float).reshape(-1, 2) for d in job["dgms"]]
    kind = job.get("dtype")
    if kind in ("float32", "float16"):
        # a narrow FLOAT container, when it holds the embedded coordinates exactly (the sweep's half sums need not be representable in it)
        with np.errstate(all="ignore"):
            if all(np.array_equal(d.astype(kind).astype(float), d) for d in dgms):
                dgms = [d.astype(kind) for d in dgms]
    elif kind and all(np.all(np.isfinite(d)) and np.all(d == np.round(d)) for d in dgms):
        info = np.iinfo(kind)
        if all(d.size == 0 or (d.min() >= info.min and d.max() <= info.max) for d in dgms):
            dgms = [d.astype(kind) for d in dgms]       # an integer-valued diagram in an integer dtype (unsigned and narrow ones included)
    before = [d.tobytes() for d in dgms]
    _verif.drain()
    pl = PersLandscapeExact(dgms=dgms, hom_deg=job["hom_deg"])
    evs = _verif.drain()
    cps = [[[fl(x), fl(y)] for x, y in depth] for depth in pl.critical_pairs]
    events = None
    if _verif.enabled and evs:
        events = []
        for e in evs:
            if e["event"] == "end":
                events.append(["end", e["dup"], e["lenA"], int(bool(e["shortcut_fired"]))])
            else:
                events.append([e["event"], fl(e["b"]), fl(e["d"]), e["lenA"]])
    return {"cps": cps, "events": events, "mutated": [d.tobytes() for d in dgms] != before}


serve(handler)
