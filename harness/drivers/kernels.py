import numpy as np, math
from _base import fl, serve
from persim import images_kernels as K


def grid(ts, mu, vx, vy, intpts=False):
    sx, sy = math.sqrt(vx), math.sqrt(vy)
    xs = np.array([mu[0] + t / 8.0 * sx for t in ts])
    ys = np.array([mu[1] + t / 8.0 * sy for t in ts])
    X, Y = np.meshgrid(xs, ys, indexing="ij")
    X, Y = X.ravel(), Y.ravel()
    if intpts and np.all(X == np.round(X)) and np.all(Y == np.round(Y)):
        X, Y = X.astype(np.int64), Y.astype(np.int64)      # integer-valued evaluation points held in integer arrays
    return X, Y, len(ts)


def mat(v, n):
    v = np.asarray(v, dtype=float).reshape(n, n)
    return [[fl(x) for x in row] for row in v]


def handler(job):
    k = job["kind"]
    with np.errstate(all="ignore"):
        if k == "bvn":
            X, Y, n = grid(job["ts"], job["mu"], job["vx"], job["vy"], job.get("intpts", False))
            cov = job["rho"] * math.sqrt(job["vx"] * job["vy"])
            sig = np.array([[job["vx"], cov], [cov, job["vy"]]])
            return {"V": mat(K.gaussian(X, Y, mu=np.array(job["mu"], dtype=float), sigma=sig), n)}
        if k == "ridge":
            sx, sy = math.sqrt(job["vx"]), math.sqrt(job["vy"])
            z = np.array([t / 8.0 for t in job["ts"]]) * job["zscale"]
            x = job["mu"][0] + z * sx
            y = job["mu"][1] + job["sgn"] * z * sy
            cov = job["rho"] * sx * sy
            v = K.gaussian(x, y, mu=np.array(job["mu"], dtype=float), sigma=np.array([[job["vx"], cov], [cov, job["vy"]]]))
            return {"R": [fl(t) for t in np.asarray(v, dtype=float)]}
        if k == "product":
            X, Y, n = grid(job["ts"], job["mu"], job["vx"], job["vy"], job.get("intpts", False))
            sig = np.array([[job["vx"], 0.0], [0.0, job["vy"]]])
            g = K.gaussian(X, Y, mu=np.array(job["mu"], dtype=float), sigma=sig)
            s = K.sbvn_cdf(X, Y, mu_x=job["mu"][0], mu_y=job["mu"][1], sigma_x=job["vx"], sigma_y=job["vy"])
            n1 = K.norm_cdf(np.array(job["ts"], dtype=float) / 8.0)
            return {"VG": mat(g, n), "VS": mat(s, n), "N1": [fl(x) for x in n1]}
        if k == "productx":
            # off-lattice decimal points and decimal means: the marginals are the code's own univariate CDF (validated against the table by the
            # lattice cases) evaluated at standardised coordinates formed in EXACT rational arithmetic from the very doubles the code receives
            from fractions import Fraction
            sx, sy = math.sqrt(job["vx"]), math.sqrt(job["vy"])
            xs = np.array([job["mu"][0] + q * sx for q in job["ks"]]); ys = np.array([job["mu"][1] + q * sy for q in job["ks"]])
            zx = np.array([float((Fraction(float(x)) - Fraction(job["mu"][0])) / Fraction(sx)) for x in xs])
            zy = np.array([float((Fraction(float(y)) - Fraction(job["mu"][1])) / Fraction(sy)) for y in ys])
            X, Y = np.meshgrid(xs, ys, indexing="ij"); X, Y = X.ravel(), Y.ravel(); n = len(xs)
            sig = np.array([[job["vx"], 0.0], [0.0, job["vy"]]])
            g = K.gaussian(X, Y, mu=np.array(job["mu"], dtype=float), sigma=sig)
            s = K.sbvn_cdf(X, Y, mu_x=job["mu"][0], mu_y=job["mu"][1], sigma_x=job["vx"], sigma_y=job["vy"])
            return {"VG": mat(g, n), "VS": mat(s, n), "NX": [fl(x) for x in K.norm_cdf(zx)], "NY": [fl(x) for x in K.norm_cdf(zy)]}
        if k == "uniform":
            out = []
            for x, y, mx, my, w, h in job["pts"]:
                out.append(fl(K.uniform(np.array([x]), np.array([y]), mu=np.array([mx, my]), width=w, height=h)[0]))
            return {"U": out}
    raise RuntimeError("bad kind")


serve(handler)
