import numpy as np
from _base import serve, fl
import persim
from persim import PersLandscapeApprox, PersLandscapeExact, PersistenceLandscaper
from persim.landscapes import vectorize, death_vector


def mat(v):
    v = np.asarray(v)
    if v.dtype.kind in "US" or v.size == 0:
        return []
    return [[fl(x) for x in row] for row in v.reshape(-1, v.shape[-1])] if v.ndim == 2 else [fl(x) for x in v]


def handler(job):
    dgms = [np.array(d, dtype=float).reshape(-1, 2) for d in job["dgms"]]
    if job.get("intdtype") and all(np.all(np.isfinite(d)) and np.all(d == np.round(d)) and np.all(np.abs(d) < 2 ** 52) for d in dgms):
        dgms = [d.astype(np.int64) for d in dgms]      # an integer-valued diagram stored with an integer dtype
    before = [d.tobytes() for d in dgms]
    out = {}
    kw = dict(num_steps=job["n"], hom_deg=job["hom_deg"])
    if job.get("explicit", True):
        kw.update(start=job["start"], stop=job["stop"])
    if job.get("reconfigure") and job.get("explicit", True):
        # built lazily for ANOTHER grid, then re-configured through its public attributes before the first computation: the values must be
        # sampled on the grid the object reports
        st = (job["stop"] - job["start"]) / max(1, job["n"] - 1)
        pla = PersLandscapeApprox(dgms=dgms, num_steps=job["n"] + 3, hom_deg=job["hom_deg"], start=job["start"] - st, stop=job["stop"] + 2 * st, compute=False)
        pla.start, pla.stop, pla.num_steps = job["start"], job["stop"], job["n"]
        pla.compute_landscape()
    else:
        pla = PersLandscapeApprox(dgms=dgms, **kw)
    out["values"] = mat(pla.values)
    out["start"], out["stop"] = fl(pla.start), fl(pla.stop)
    if job.get("vec"):
        ple = PersLandscapeExact(dgms=dgms, hom_deg=job["hom_deg"])
        v = vectorize(ple, start=job["start"], stop=job["stop"], num_steps=job["n"])
        out["vvalues"] = mat(v.values)
    if job.get("tr") is not None:
        tkw = dict(hom_deg=job["hom_deg"], num_steps=job["n"], flatten=bool(job["tr"]))
        trb = job.get("trb", "both" if job.get("explicit", True) else "none")
        if trb in ("both", "start"):
            tkw.update(start=job["start"])
        if trb in ("both", "stop"):
            tkw.update(stop=job["stop"])
        t = PersistenceLandscaper(**tkw).fit_transform(dgms)
        out["tvalues"] = mat(t)
    if job.get("dv"):
        out["dvec"] = [fl(x) for x in death_vector(dgms, hom_deg=0)]
    out["mutated"] = [d.tobytes() for d in dgms] != before
    return out


serve(handler)
