import sys, os, math
import numpy as np
import matplotlib
matplotlib.use("Agg")
import matplotlib.pyplot as plt
sys.path.insert(0, os.path.dirname(os.path.abspath(__file__)))
from _base import fl, serve
import persim
from collections import Counter


def lines_of(ax):
    out = []
    for l in ax.lines:
        x, y = np.asarray(l.get_xdata(), dtype=float), np.asarray(l.get_ydata(), dtype=float)
        if len(x) == 2:
            out.append(dict(p=[fl(x[0]), fl(y[0]), fl(x[1]), fl(y[1])], label=str(l.get_label()),
                            style=[float(l.get_linewidth()), str(l.get_linestyle()), str(l.get_color())]))
    return out


def handler(job):
    plt.close("all")
    plt.style.use("default")
    fig, (a, b) = plt.subplots(1, 2)
    plt.sca(a if job.get("ax_is_current") else b)
    out = {}
    if job["kind"] == "diagrams":
        dt = np.float32 if job.get("float32") else float
        dgms = [np.array(d, dtype=dt).reshape(-1, 2) for d in job["dgms"]]
        if job.get("repeat_first"):          # the SAME array object appears twice in the list
            dgms = [dgms[0]] + dgms
        kw = dict(ax=a, lifetime=bool(job["lifetime"]), legend=bool(job["legend"]), diagonal=bool(job.get("diagonal", True)))
        if job.get("plot_only"):
            kw["plot_only"] = job["plot_only"]
        if job.get("title"):
            kw["title"] = job["title"]
        if job.get("xy_range"):
            kw["xy_range"] = job["xy_range"]
        if job.get("labels"):
            kw["labels"] = job["labels"]
        arg = dgms if (len(dgms) > 1 or job.get("aslist")) else dgms[0]
        persim.plot_diagrams(arg, **kw)
        out["colls"] = [[[fl(x), fl(y)] for x, y in np.asarray(c.get_offsets(), dtype=float)] for c in a.collections]
        out["lines"] = lines_of(a)
        out["xlim"] = [fl(v) for v in a.get_xlim()]
        out["ylim"] = [fl(v) for v in a.get_ylim()]
        out["xlabel"], out["ylabel"], out["title"] = a.get_xlabel(), a.get_ylabel(), a.get_title()
        leg = a.get_legend()
        out["haslegend"] = int(leg is not None)
        out["legtexts"] = [t.get_text() for t in leg.get_texts()] if leg is not None else []
        out["other_artists"] = len(b.lines) + len(b.collections)
        out["colllabels"] = [str(c.get_label()) for c in a.collections]
        out["reflabels"] = []
        if job.get("plot_only"):
            # reference: the same diagrams without plot_only -- whatever text a diagram's collection carries there (default or given) is the
            # text it must carry when it is selected by plot_only: a legend entry belongs to the data it annotates
            fig2, a2 = plt.subplots(1, 1)
            kw2 = {k_: v_ for k_, v_ in kw.items() if k_ not in ("plot_only", "xy_range")}
            kw2["ax"] = a2
            persim.plot_diagrams(arg, **kw2)
            out["reflabels"] = [str(c.get_label()) for c in a2.collections]
    elif job["kind"] == "landscape":
        from persim import PersLandscapeExact, PersLandscapeApprox
        from persim.landscapes import visuals as lv
        bars = np.array(job["bars"], dtype=float).reshape(-1, 2)
        if job["lkind"] == 1:
            L = PersLandscapeExact(dgms=[bars], hom_deg=0)
            L.compute_landscape()
            cont = [[[fl(x), fl(y)] for x, y in d] for d in L.critical_pairs]
        else:
            L = PersLandscapeApprox(dgms=[bars], hom_deg=0, start=job["start"], stop=job["stop"], num_steps=job["n"])
            dom = np.linspace(L.start, L.stop, L.num_steps)
            cont = [[[fl(x), fl(y)] for x, y in zip(dom, row)] for row in np.asarray(L.values, dtype=float)]
        if job.get("lazy"):
            # the object handed to the plot function was built with compute=False: plotting is the FIRST query on it (the content above comes
            # from an eagerly built twin)
            if job["lkind"] == 1:
                L = PersLandscapeExact(dgms=[bars.copy()], hom_deg=0, compute=False)
            else:
                L = PersLandscapeApprox(dgms=[bars.copy()], hom_deg=0, start=job["start"], stop=job["stop"], num_steps=job["n"], compute=False)
        kw = dict(ax=a)
        if job.get("title"):
            kw["title"] = job["title"]
        if job.get("labels"):
            kw["labels"] = job["labels"]
        if job.get("depth_range"):
            kw["depth_range"] = range(job["depth_range"][0], job["depth_range"][1])
        (lv.plot_landscape_simple if job.get("dispatch") else (lv.plot_landscape_exact_simple if job["lkind"] == 1 else lv.plot_landscape_approx_simple))(L, **kw)
        out["content"] = cont
        out["obslines"] = [[[fl(x), fl(y)] for x, y in zip(np.asarray(l.get_xdata(), dtype=float), np.asarray(l.get_ydata(), dtype=float))] for l in a.lines]
        out["title"], out["xlabel"], out["ylabel"] = a.get_title(), a.get_xlabel(), a.get_ylabel()
        out["onother"] = len(b.lines)
        out["nmax"] = int(L.max_depth)
    else:
        S = np.array(job["S"], dtype=float).reshape(-1, 2)
        T = np.array(job["T"], dtype=float).reshape(-1, 2)
        if job["fn"] == "bottleneck":
            d, m = persim.bottleneck(S, T, matching=True)
            persim.bottleneck_matching(S, T, m, ax=a)
        else:
            d, m = persim.wasserstein(S, T, matching=True)
            persim.wasserstein_matching(S, T, m, ax=a)
        m = np.asarray(m).reshape(-1, 3)
        out["rows"] = [[int(r[0]), int(r[1])] for r in m]
        out["maxrow"] = int(np.argmax(m[:, 2])) if len(m) else -1
        out["onax"] = lines_of(a)
        out["onother"] = len(b.lines)
        out["ncoll"] = len(a.collections)
        # every Line2D on the axes, and the lines the underlying diagram plot draws on its own (reference call on a fresh figure):
        # the difference is the number of segments drawn for the matching, visible or degenerate
        out["nlines"] = len(a.lines)
        try:
            fig2, a2 = plt.subplots(1, 1)
            pad = (lambda d: d if d.size else np.array([[0.0, 0.0]])) if job["fn"] != "bottleneck" else (lambda d: d)
            persim.plot_diagrams([pad(S), pad(T)], labels=["dgm1", "dgm2"], ax=a2)
            out["nframe"] = len(a2.lines)
        except Exception:
            out["nframe"] = -1
    plt.close("all")
    return out


serve(handler)
