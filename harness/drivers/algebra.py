import hashlib, copy, numpy as np
from _base import fl, serve
from persim import PersLandscapeExact, PersLandscapeApprox
from persim.landscapes import snap_pl, lc_approx, average_approx


def content(o):
    if isinstance(o, PersLandscapeExact):
        return {"kind": 1, "hom": int(o.hom_deg), "cps": [[[fl(x), fl(y)] for x, y in d] for d in o.critical_pairs]}
    v = np.asarray(o.values)
    vals = [] if v.dtype.kind in "US" else [[fl(x) for x in row] for row in v.reshape(-1, v.shape[-1])]
    return {"kind": 2, "hom": int(o.hom_deg), "start": fl(o.start), "stop": fl(o.stop), "n": int(o.num_steps), "vals": vals}


def forced(o):
    """the object itself when its landscape is stored; for a LAZILY built one (compute=False, nothing stored yet) a computed deep copy:
    what is observed is the function the object stands for, and computing it on demand is not a change of that function"""
    lazy = (isinstance(o, PersLandscapeExact) and not o.critical_pairs) or (isinstance(o, PersLandscapeApprox) and np.asarray(o.values).size == 0)
    if not lazy:
        return o
    c = copy.deepcopy(o)
    c.compute_landscape()
    return c


def digest(o):
    o = forced(o)
    h = hashlib.sha256(repr(content(o)).encode()).digest()
    return int.from_bytes(h[:4], "big") >> 1


def handler(job):
    env, evs = {}, []
    for ins in job["prog"]:
        op, res = ins["op"], ins.get("res", [])
        ev = {"raised": 0, "news": {}}
        if any(a not in env for a in ins.get("args", [])):
            ev["raised"] = 2   # operand was never created (an earlier operation failed): skipped
            ev["digs"] = [[n, digest(o)] for n, o in env.items()]
            evs.append(ev)
            continue
        try:
            A = [env[a] for a in ins.get("args", [])]
            c = ins.get("c")
            if op == "new_exact_dgm":
                outs = [PersLandscapeExact(dgms=[np.array(d, dtype=float).reshape(-1, 2) for d in ins["dgms"]], hom_deg=ins["hom"], compute=not ins.get("lazy"))]
            elif op == "new_exact_cp":
                outs = [PersLandscapeExact(critical_pairs=[[list(p) for p in d] for d in ins["cps"]], hom_deg=ins["hom"])]
            elif op == "new_approx_dgm":
                outs = [PersLandscapeApprox(dgms=[np.array(d, dtype=float).reshape(-1, 2) for d in ins["dgms"]], hom_deg=ins["hom"], start=ins["start"], stop=ins["stop"], num_steps=ins["n"], compute=not ins.get("lazy"))]
            elif op == "new_approx_vals":
                outs = [PersLandscapeApprox(values=np.array(ins["vals"], dtype=int if ins.get("int") else float), hom_deg=ins["hom"], start=ins["start"], stop=ins["stop"], num_steps=ins["n"])]
            elif op == "add":
                outs = [A[0] + A[1]]
            elif op == "sub":
                outs = [A[0] - A[1]]
            elif op == "neg":
                outs = [-A[0]]
            elif op == "mul":
                outs = [A[0] * c]
            elif op == "rmul":
                outs = [c * A[0]]
            elif op == "div":
                outs = [A[0] / c]
            elif op == "snap":
                outs = list(snap_pl(A, start=ins["start"], stop=ins["stop"], num_steps=ins["n"]))
            elif op == "lc":
                outs = [lc_approx(A, ins["coeffs"], start=ins["start"], stop=ins["stop"], num_steps=ins["n"])]
            elif op == "avg":
                outs = [average_approx(A, start=ins["start"], stop=ins["stop"], num_steps=ins["n"])]
            else:
                raise RuntimeError("bad op")
            for name, o in zip(res, outs):
                if isinstance(o, PersLandscapeExact) and not ins.get("lazy"):
                    o.compute_landscape()
                env[name] = o
                ev["news"][str(name)] = content(forced(o))
            if len(outs) != len(res):
                ev["arity"] = len(outs)
        except (ValueError, TypeError) as e:
            ev["raised"] = 1
            ev["exc"] = type(e).__name__ + ": " + str(e)[:120]
        ev["digs"] = [[n, digest(o)] for n, o in env.items()]
        evs.append(ev)
    return {"events": evs}


if __name__ == "__main__":
    serve(handler)
