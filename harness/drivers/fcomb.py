import numpy as np, warnings, sys, os
sys.path.insert(0, os.path.dirname(os.path.abspath(__file__)))
from _base import fl, serve
from persim import PersLandscapeExact


def cps(L):
    L.compute_landscape()
    return [[[fl(x), fl(y)] for x, y in d] for d in L.critical_pairs]


def handler(job):
    P = PersLandscapeExact(dgms=[np.array(job["A"], dtype=float).reshape(-1, 2)], hom_deg=0)
    Q = PersLandscapeExact(dgms=[np.array(job["B"], dtype=float).reshape(-1, 2)], hom_deg=0)
    a, b = job["a"][0] / job["a"][1], job["b"][0] / job["b"][1]
    out = {"P": cps(P), "Q": cps(Q)}
    try:
        with np.errstate(all="ignore"), warnings.catch_warnings():
            warnings.simplefilter("ignore")
            if (a, b) == (1.0, -1.0):
                R = P - Q
            elif (a, b) == (1.0, 1.0):
                R = P + Q
            else:
                R = a * P + b * Q
            out["R"] = cps(R)
    except Exception as e:
        out["raised_in_op"] = type(e).__name__ + ": " + str(e)[:100]
    return out


serve(handler)
