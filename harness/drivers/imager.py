import numpy as np
from _base import serve, fl
from persim import PersistenceImager


def observe(pim, tick, probe_budget=24):
    """public attributes + probes: a tiny box kernel (fixed at construction, side tick/16) centred tick/8 inside each corner of a pixel must put
    all of its mass into exactly that pixel -- this pins every pixel edge of the mesh to within tick/8 without touching the imager's configuration"""
    ps = pim.pixel_size
    rx, ry = pim.resolution
    o = dict(ps=fl(ps), b0=fl(pim.birth_range[0]), b1=fl(pim.birth_range[1]), p0=fl(pim.pers_range[0]), p1=fl(pim.pers_range[1]),
             W=fl(pim.width), H=fl(pim.height), res=[int(rx), int(ry)])
    cells = [(i, j) for i in range(rx) for j in range(ry)]
    if len(cells) > probe_budget:
        keep = {(0, 0), (rx - 1, ry - 1), (0, ry - 1), (rx - 1, 0)}
        idx = np.linspace(0, len(cells) - 1, probe_budget - 4).astype(int)
        cells = sorted(keep | {cells[t] for t in idx})
    probes = []
    shape = None
    d = tick / 8.0
    if cells:
        pts, owners = [], []
        for i, j in cells:
            x0, x1 = pim.birth_range[0] + i * ps, pim.birth_range[0] + (i + 1) * ps
            y0, y1 = pim.pers_range[0] + j * ps, pim.pers_range[0] + (j + 1) * ps
            for (x, y) in ((x0 + d, y0 + d), (x1 - d, y1 - d), (x0 + d, y1 - d), (x1 - d, y0 + d)):
                pts.append(np.array([[x, y]])); owners.append((i, j))
        imgs = pim.transform(pts, skew=False)
        for (i, j), img in zip(owners, imgs):
            img = np.asarray(img)
            shape = list(img.shape)
            nz = [[int(a), int(b), int(round(float(img[a, b]) * 1e9))] for a, b in zip(*np.nonzero(np.abs(img) > 1e-12))]
            probes.append([i, j, nz[:6]])
    else:
        shape = list(np.asarray(pim.transform(np.array([[0.0, 1.0]]), skew=False)).shape)
    shapes = [] if shape is None else [shape]
    for img in probes and imgs or []:
        shapes.append(list(np.asarray(img).shape))
    mid = np.array([[pim.birth_range[0] + ps / 2, pim.pers_range[0] + ps / 2]])
    empty = np.zeros((0, 2))
    try:
        shapes.append(list(np.asarray(pim.transform(empty, skew=False)).shape))
        shapes.append(list(np.asarray(pim.transform(mid, skew=False)).shape))
        for img in pim.transform([empty, mid, empty], skew=False):
            shapes.append(list(np.asarray(img).shape))
        for img in pim.transform([empty], skew=True):
            shapes.append(list(np.asarray(img).shape))
    except Exception as e:
        shapes.append([-1, -1])
    o["shapes"] = [list(x) for x in sorted(set(map(tuple, shapes)))]
    o["probes"] = probes
    return o


def handler(job):
    pim = None
    out = []
    for op in job["ops"]:
        k = op[0]
        if k == "ctor":
            pim = PersistenceImager(birth_range=(op[1], op[2]), pers_range=(op[3], op[4]), pixel_size=op[5], kernel="uniform",
                                    kernel_params={"width": job["tick"] / 16.0, "height": job["tick"] / 16.0}, weight="linear_ramp",
                                    weight_params={"low": 1.0, "high": 1.0, "start": 0.0, "end": 1.0})
        elif k == "birth":
            pim.birth_range = (op[1], op[2])
        elif k == "pers":
            pim.pers_range = (op[1], op[2])
        elif k == "pix":
            pim.pixel_size = op[1]
        elif k == "fit":
            d = [np.array(x, dtype=float) for x in op[1]]
            kind = job.get("fitdtype")
            if kind and all(x.size and np.all(x == np.round(x)) and x.min() >= np.iinfo(kind).min and x.max() <= np.iinfo(kind).max for x in d):
                d = [x.astype(kind) for x in d]        # integer-valued data in an integer dtype (8-bit grey levels, counters)
            if len(op) > 4 and op[4]:      # the fitting entry point that also renders
                pim.fit_transform(d if len(d) > 1 or op[3] else d[0], skew=bool(op[2]))
            else:
                pim.fit(d if len(d) > 1 or op[3] else d[0], skew=bool(op[2]))
        out.append(observe(pim, job["tick"]))
    return {"obs": out}


serve(handler)
