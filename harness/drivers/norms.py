import numpy as np, warnings, sys, os
sys.path.insert(0, os.path.dirname(os.path.abspath(__file__)))
from _base import fl, serve
import persim
from persim import PersLandscapeExact, PersLandscapeApprox
from algebra import content, forced


def num(x):
    try:
        if isinstance(x, complex) or np.iscomplexobj(x):
            return "complex"
        return fl(x)
    except Exception:
        return "nan"


def handler(job):
    if job["kind"] == "stab":
        X = np.array(job["X"], dtype=float).reshape(-1, 2)
        Y = np.array(job["Y"], dtype=float).reshape(-1, 2)
        d = PersLandscapeExact(dgms=[X], hom_deg=0) - PersLandscapeExact(dgms=[Y], hom_deg=0)
        return {"sup": num(d.sup_norm()), "bott": num(persim.bottleneck(X, Y))}
    mk = job.get("make")
    def build(m):
        if m["t"] == "dgm":
            return PersLandscapeExact(dgms=[np.array(m["bars"], dtype=float).reshape(-1, 2)], hom_deg=0, compute=not m.get("lazy"))
        if m["t"] == "cp":
            return PersLandscapeExact(critical_pairs=[[list(p) for p in d] for d in m["cps"]], hom_deg=0)
        if m["t"] == "adgm":
            return PersLandscapeApprox(dgms=[np.array(m["bars"], dtype=float).reshape(-1, 2)], hom_deg=0, start=m["start"], stop=m["stop"], num_steps=m["n"], compute=not m.get("lazy"))
        if m["t"] == "avals":
            return PersLandscapeApprox(values=np.array(m["vals"], dtype=int if m.get("int") else float), hom_deg=0, start=m["start"], stop=m["stop"], num_steps=m["n"])
        if m["t"] == "sub":
            return build(m["a"]) - build(m["b"])
        if m["t"] == "lin":
            return m["ca"] * build(m["a"]) + m["cb"] * build(m["b"])
    if job["kind"] == "session":
        # two shared objects; every derived landscape is built from THESE objects, in the order asked for
        P, Q = build(job["a"]), build(job["b"])
        out = {"cP": content(forced(P)), "cQ": content(forced(Q)), "n": {}, "sup": {}}
        def norms_of(name, o):
            out["n"][name] = {}
            for p in job["ps"]:
                with np.errstate(all="ignore"), warnings.catch_warnings():
                    warnings.simplefilter("ignore")
                    try:
                        out["n"][name][str(p)] = num(o.p_norm(p))
                    except Exception as e:
                        out["n"][name][str(p)] = "raised:" + type(e).__name__
            try:
                out["sup"][name] = num(o.sup_norm())
            except Exception as e:
                out["sup"][name] = "raised:" + type(e).__name__
        norms_of("P", P); norms_of("Q", Q)
        c = job["c"][0] / job["c"][1]
        mkd = {"D": lambda: P - Q, "E": lambda: Q - P, "Z": lambda: P - P, "H": lambda: (c * P if job.get("rmul") else P * c), "S": lambda: P + Q}
        for name in job["order"]:
            try:
                norms_of(name, mkd[name]())
            except Exception as e:
                out["n"][name] = {str(p): "raised:" + type(e).__name__ for p in job["ps"]}; out["sup"][name] = "raised:" + type(e).__name__
        norms_of("P2", P); norms_of("Q2", Q)
        return out
    o = build(mk)
    if isinstance(o, PersLandscapeExact) and not mk.get("lazy"):
        o.compute_landscape()
    out = {"content": content(forced(o)), "norms": {}}     # (a lazily built object is left untouched: the content comes from a computed deep copy)
    if mk.get("lazy") and mk.get("first") == "sup":
        try:
            out["sup"] = num(o.sup_norm())
        except Exception as e:
            out["sup"] = "raised:" + type(e).__name__
    for p in job["ps"]:
        with np.errstate(all="ignore"), warnings.catch_warnings():
            warnings.simplefilter("ignore")
            try:
                out["norms"][str(p)] = num(o.p_norm(p))
            except Exception as e:
                out["norms"][str(p)] = "raised:" + type(e).__name__
    if "sup" not in out:
        try:
            out["sup"] = num(o.sup_norm())
        except Exception as e:
            out["sup"] = "raised:" + type(e).__name__
    return out


serve(handler)
