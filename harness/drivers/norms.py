import numpy as np, warnings, sys, os
sys.path.insert(0, os.path.dirname(os.path.abspath(__file__)))
from _base import fl, serve
import persim
from persim import PersLandscapeExact, PersLandscapeApprox
from algebra import content, forced


def num(x):
    try:
        if isinstance(x, complex) or np.iscomplexobj(x):
            return "complex"
        return fl(x)
    except Exception:
        return "nan"


def handler(job):
    if job["kind"] == "stab":
        X = np.array(job["X"], dtype=float).reshape(-1, 2)
        Y = np.array(job["Y"], dtype=float).reshape(-1, 2)
        d = PersLandscapeExact(dgms=[X], hom_deg=0) - PersLandscapeExact(dgms=[Y], hom_deg=0)
        return {"sup": num(d.sup_norm()), "bott": num(persim.bottleneck(X, Y))}
    mk = job["make"]
    def build(m):
        if m["t"] == "dgm":
            return PersLandscapeExact(dgms=[np.array(m["bars"], dtype=float).reshape(-1, 2)], hom_deg=0, compute=not m.get("lazy"))
        if m["t"] == "cp":
            return PersLandscapeExact(critical_pairs=[[list(p) for p in d] for d in m["cps"]], hom_deg=0)
        if m["t"] == "adgm":
            return PersLandscapeApprox(dgms=[np.array(m["bars"], dtype=float).reshape(-1, 2)], hom_deg=0, start=m["start"], stop=m["stop"], num_steps=m["n"], compute=not m.get("lazy"))
        if m["t"] == "avals":
            return PersLandscapeApprox(values=np.array(m["vals"], dtype=int if m.get("int") else float), hom_deg=0, start=m["start"], stop=m["stop"], num_steps=m["n"])
        if m["t"] == "sub":
            return build(m["a"]) - build(m["b"])
        if m["t"] == "lin":
            return m["ca"] * build(m["a"]) + m["cb"] * build(m["b"])
    o = build(mk)
    if isinstance(o, PersLandscapeExact) and not mk.get("lazy"):
        o.compute_landscape()
    out = {"content": content(forced(o)), "norms": {}}     # (a lazily built object is left untouched: the content comes from a computed deep copy)
    if mk.get("lazy") and mk.get("first") == "sup":
        try:
            out["sup"] = num(o.sup_norm())
        except Exception as e:
            out["sup"] = "raised:" + type(e).__name__
    for p in job["ps"]:
        with np.errstate(all="ignore"), warnings.catch_warnings():
            warnings.simplefilter("ignore")
            try:
                out["norms"][str(p)] = num(o.p_norm(p))
            except Exception as e:
                out["norms"][str(p)] = "raised:" + type(e).__name__
    if "sup" not in out:
        try:
            out["sup"] = num(o.sup_norm())
        except Exception as e:
            out["sup"] = "raised:" + type(e).__name__
    return out


serve(handler)
