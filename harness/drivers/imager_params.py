import numpy as np
from _base import serve
from persim import PersistenceImager, images_kernels, images_weights

V = {"birth": {"ok": (0.0, 1.0), "list": [0.0, 1.0], "len3": (0.0, 1.0, 2.0), "strelem": (0.0, "1")},
     "size": {"float": 0.25, "int": 1, "str": "0.2"},
     "weight": {"callable": images_weights.persistence, "validstr": "linear_ramp", "badstr": "nope", "int": 3},
     "wparams": {"dict": {"n": 1.0}, "list": [1.0]},
     "kernel": {"callable": images_kernels.gaussian, "validstr": "uniform", "badstr": "nope", "int": 3},
     "kparams": {"dict": {"sigma": 1.0}, "list": [1.0]}}


def handler(job):
    a = job["args"]
    kw = dict(birth_range=V["birth"][a["birth"]], pers_range=V["birth"][a["pers"]], pixel_size=V["size"][a["size"]], weight=V["weight"][a["weight"]],
              weight_params=V["wparams"][a["wparams"]], kernel=V["kernel"][a["kernel"]], kernel_params=V["kparams"][a["kparams"]])
    if a["weight"] == "validstr" and a["wparams"] == "dict":
        kw["weight_params"] = {"low": 0.0, "high": 1.0, "start": 0.0, "end": 1.0}
    if a["kernel"] == "validstr" and a["kparams"] == "dict":
        kw["kernel_params"] = {"width": 1.0, "height": 1.0}
    try:
        PersistenceImager(**kw)
        return {"outcome": "ok"}
    except ValueError as e:
        return {"outcome": str(e)}


serve(handler)
