import hashlib, warnings, sys, os
import numpy as np
import matplotlib
matplotlib.use("Agg")
import matplotlib.pyplot as plt
import scipy.sparse as sps
sys.path.insert(0, os.path.dirname(os.path.abspath(__file__)))
from _base import serve
import persim
from persim import (PersLandscapeExact, PersLandscapeApprox, PersistenceLandscaper, PersistenceImager, images_kernels, images_weights)
from persim.landscapes import snap_pl, lc_approx, average_approx, vectorize, death_vector
from persim.landscapes import visuals as lv
from persim.persistent_entropy import persistent_entropy
from algebra import content


def h(b):
    return int.from_bytes(hashlib.sha256(b).digest()[:4], "big") >> 1


def dig(x):
    """digest of a result / pool object by VALUE"""
    if x is None:
        return b"N"
    if isinstance(x, (PersLandscapeExact, PersLandscapeApprox)):
        if isinstance(x, PersLandscapeExact):
            x.compute_landscape()
        return repr(content(x)).encode()
    if isinstance(x, PersistenceImager):
        # public configuration plus the stored pixel mesh (read through the object's __dict__: every ndarray it holds)
        mesh = b"|".join(k.encode() + np.ascontiguousarray(v).tobytes() for k, v in sorted(vars(x).items()) if isinstance(v, np.ndarray))
        return repr((x.birth_range, x.pers_range, x.pixel_size, x.resolution, x.width, x.height, x.kernel_params, x.weight_params)).encode() + mesh
    if isinstance(x, PersistenceLandscaper):
        return repr((x.start, x.stop, x.num_steps, x.hom_deg, x.flatten)).encode()
    if sps.issparse(x):
        c = x.tocoo()
        return b"S" + c.row.tobytes() + c.col.tobytes() + c.data.tobytes()
    if isinstance(x, np.ndarray):
        if x.dtype.kind in "USO":
            return repr(x.tolist()).encode()
        return b"A" + str(x.shape).encode() + str(x.dtype).encode() + np.ascontiguousarray(x).tobytes()
    if isinstance(x, (float, np.floating)):
        return b"F" + np.float64(x).tobytes()
    if isinstance(x, (int, np.integer, bool, str)):
        return repr(x).encode()
    if isinstance(x, (list, tuple)):
        return b"L" + b"|".join(dig(y) for y in x)
    if isinstance(x, dict):
        return b"D" + b"|".join(k.encode() + dig(v) for k, v in sorted(x.items()))
    if hasattr(x, "collections") and hasattr(x, "lines"):   # matplotlib Axes: digest of the scene
        parts = []
        for c in x.collections:
            try:
                parts.append(np.asarray(c.get_offsets(), dtype=float).tobytes())
            except Exception:
                pass
        for l in x.lines:
            parts.append(np.asarray(l.get_xdata(), dtype=float).tobytes() + np.asarray(l.get_ydata(), dtype=float).tobytes())
        parts.append(repr((x.get_xlim(), x.get_ylim(), x.get_title(), x.get_xlabel(), x.get_ylabel())).encode())
        return b"X" + b"|".join(parts)
    return repr(type(x)).encode()


def make_pool():
    P = {}
    P["D1"] = np.array([[0, 4], [1, 3], [2, 6], [2, 6], [5, 7]], dtype=float)
    P["D2"] = np.array([[1, 5], [0, 2], [3, 8]], dtype=float)
    P["D1i"] = P["D1"].astype(int)
    P["D2i"] = P["D2"].astype(int)
    P["D1l"] = P["D1"].tolist()
    P["D2l"] = P["D2"].tolist()
    P["D1f32"] = P["D1"].astype(np.float32)
    P["D1u8"] = P["D1"].astype(np.uint8)
    P["D2u8"] = P["D2"].astype(np.uint8)
    P["Dinf"] = np.array([[0, 4], [1, 3], [0, np.inf]], dtype=float)
    P["Dinf32"] = P["Dinf"].astype(np.float32)
    P["BP"] = np.array([[0.0, 2.0], [1.0, 3.0]])
    # irregular graphs on which the greedy upper bound depends on its random start
    rng = np.random.RandomState(5)
    def graph(n, extra):
        A = np.zeros((n, n), dtype=int)
        for i in range(1, n):
            A[rng.randint(0, i), i] = 1
        for _ in range(extra):
            a, b = sorted(rng.randint(0, n, 2))
            if a != b:
                A[a, b] = 1
        return sps.csr_matrix(A)
    P["G1"], P["G2"] = graph(14, 4), graph(16, 3)
    # the same graphs in dense containers (float64 / integer arrays, nested lists), upper-triangular and symmetric
    P["G1df"] = P["G1"].toarray().astype(np.float64)
    P["G2df"] = (P["G2"] + P["G2"].T).toarray().astype(np.float64)
    P["G1di"] = P["G1"].toarray().astype(np.int64)
    P["G2l"] = P["G2"].toarray().tolist()
    # collections the CALLER owns: lists of graphs / of diagrams kept between calls
    P["GL"] = [P["G1"].toarray().astype(np.float64), (P["G2"] + P["G2"].T).toarray().astype(np.int64), P["G1"].copy()]
    P["DL"] = [P["D1"].copy(), P["D2"].copy(), P["Dinf"].copy()]
    # estimators the caller keeps: an unfitted landscaper, a CSR graph that stores some explicit zeros
    P["plx"] = PersistenceLandscaper(hom_deg=0, num_steps=7)
    Z = sps.csr_matrix(P["G1"], copy=True).astype(np.float64)
    Z = sps.csr_matrix((np.concatenate([Z.data, [0.0, 0.0]]), np.concatenate([Z.indices, [3, 5]]), np.concatenate([Z.indptr[:-1], [Z.indptr[-1] + 2]])), shape=Z.shape)
    P["G1z"] = Z
    P["Dinfl"] = [[0.0, 4.0], [1.0, 3.0], [2.0, 6.0], [0.0, float("inf")]]       # nested lists, the essential class last (ripser's H0 order)
    P["vals"] = np.array([[0.0, 1.0, -2.0, 3.0, -1.0, 0.5, 2.0, -0.5, 0.0], [0.0, 0.5, -1.0, 1.0, 0.0, 0.0, 1.0, 0.0, 0.0]])
    P["xs"] = np.linspace(-2.0, 2.0, 9)
    P["ys"] = np.linspace(-1.0, 3.0, 9)
    with warnings.catch_warnings():
        warnings.simplefilter("ignore")
        P["ple1"] = PersLandscapeExact(dgms=[P["D1"].copy()], hom_deg=0)
        P["ple2"] = PersLandscapeExact(dgms=[P["D2"].copy()], hom_deg=0)
        P["pla1"] = PersLandscapeApprox(dgms=[P["D1"].copy()], hom_deg=0, start=0, stop=8, num_steps=9)
        P["pla2"] = PersLandscapeApprox(dgms=[P["D2"].copy()], hom_deg=0, start=0, stop=8, num_steps=9)
        P["pla3"] = PersLandscapeApprox(dgms=[P["D2"].copy()], hom_deg=0, start=0, stop=10, num_steps=6)
        P["pim"] = PersistenceImager(birth_range=(0.0, 6.0), pers_range=(0.0, 6.0), pixel_size=2.0)
        P["pims"] = PersistenceImager(birth_range=(0.0, 6.0), pers_range=(0.0, 6.0), pixel_size=2.0, kernel_params={"sigma": 0.25})
        P["pima"] = PersistenceImager(birth_range=(0.0, 6.0), pers_range=(0.0, 6.0), pixel_size=2.0, kernel_params={"sigma": np.array([[0.5, 0.0], [0.0, 2.0]])})
        P["pimu"] = PersistenceImager(birth_range=(0.0, 6.0), pers_range=(0.0, 6.0), pixel_size=2.0, kernel="uniform", kernel_params={"width": 2.0, "height": 2.0})
    P["img"] = np.arange(9.0).reshape(3, 3)
    # parameter dictionaries owned by the caller
    P["kp"] = {"sigma": 0.5}
    P["wp"] = {"low": 0.0, "high": 1.0, "start": 0.0, "end": 5.0}
    P["D3"] = np.array([[0, 1], [1, 3], [2, 5], [0, 4]], dtype=float)     # persistences 1, 2, 3, 4: fractional ramp weights
    P["D3i"] = P["D3"].astype(int)
    P["D3u8"] = P["D3"].astype(np.uint8)
    P["D3l"] = P["D3"].tolist()
    return P


def pool_digest(P):
    return {k: h(dig(v)) for k, v in P.items()}


def V(P, base, v, forms=("", "i", "l")):
    """variant v (1-based) of diagram `base`: float array / int array / nested list where accepted"""
    f = forms[(v - 1) % len(forms)]
    return P[base + f]


def ax2():
    fig, (a, b) = plt.subplots(1, 2)
    return a, b


FNS = []


def ep(name, forms=("",)):
    def deco(f):
        FNS.append((name, f, forms))
        return f
    return deco


F3 = ("", "i", "l", "u8")        # float64 / int64 arrays, nested lists, uint8 arrays
F2 = ("", "i", "u8")
FS = ("", "i")                    # sliced_wasserstein projects with float32 direction vectors: a uint8 / float32 diagram is projected in single precision and
                                  # differs from the float64 result in the 7th digit -- not counted as representation dependence


@ep("bottleneck", F3)
def _(P, v): return persim.bottleneck(V(P, "D1", v, F3), V(P, "D2", v, F3))
@ep("bottleneck+matching", F3)
def _(P, v):
    d, m = persim.bottleneck(V(P, "D1", v, F3), V(P, "D2", v, F3), matching=True)
    return [d, np.sort(np.asarray(m)[:, 2])]
@ep("bottleneck inf", F3)
def _(P, v): return persim.bottleneck(P["Dinf"], V(P, "D2", v, F3))
@ep("wasserstein", F3)
def _(P, v): return persim.wasserstein(V(P, "D1", v, F3), V(P, "D2", v, F3))
@ep("wasserstein+matching", F3)
def _(P, v):
    d, m = persim.wasserstein(V(P, "D1", v, F3), V(P, "D2", v, F3), matching=True)
    return d
@ep("heat", F3)
def _(P, v): return persim.heat(V(P, "D1", v, F3), V(P, "D2", v, F3), sigma=0.5)
@ep("sliced M=10", FS)
def _(P, v): return persim.sliced_wasserstein(V(P, "D1", v, FS), V(P, "D2", v, FS), M=10)
@ep("sliced M=40", FS)
def _(P, v): return persim.sliced_wasserstein(V(P, "D1", v, FS), V(P, "D2", v, FS), M=40)
@ep("sliced M=3", FS)
def _(P, v): return persim.sliced_wasserstein(V(P, "D1", v, FS), V(P, "D2", v, FS), M=3)
@ep("gromov_hausdorff seeded [0,0]")
def _(P, v):
    np.random.seed(11)
    return list(persim.gromov_hausdorff(P["G1"], P["G2"], mapping_sample_size_order=np.array([0, 0])))
@ep("gromov_hausdorff seeded [.5,0]")
def _(P, v):
    np.random.seed(12)
    return list(persim.gromov_hausdorff(P["G2"], P["G1"], mapping_sample_size_order=np.array([0.5, 0])))
@ep("gromov_hausdorff dense float64")
def _(P, v):
    np.random.seed(14)
    return list(persim.gromov_hausdorff(P["G1df"], P["G2df"]))
@ep("gromov_hausdorff dense int / nested list")
def _(P, v):
    np.random.seed(15)
    return list(persim.gromov_hausdorff(P["G1di"], P["G2l"]))
@ep("gromov_hausdorff collection dense")
def _(P, v):
    np.random.seed(16)
    lb, ub = persim.gromov_hausdorff([P["G1df"], P["G2df"], P["G1di"]])
    return [lb, ub]
@ep("gromov_hausdorff collection")
def _(P, v):
    np.random.seed(13)
    lb, ub = persim.gromov_hausdorff([P["G1"], P["G2"], P["G1"]])
    return [lb, ub]
@ep("gromov_hausdorff collection (the caller's own list)")
def _(P, v):
    np.random.seed(17)
    lb, ub = persim.gromov_hausdorff(P["GL"])
    return [lb, ub]
@ep("collections the caller owns: entropy / death_vector / imager / landscaper / plot on one list of diagrams")
def _(P, v):
    a, b = ax2()
    persim.plot_diagrams(P["DL"], ax=a)
    out = [persistent_entropy(P["DL"]), list(death_vector(P["DL"])), list(P["pim"].transform(P["DL"][:2])),
           PersistenceLandscaper(hom_deg=1, num_steps=5).fit_transform(P["DL"]), PersLandscapeExact(dgms=P["DL"], hom_deg=1), dig(a)]
    plt.close("all"); return out
@ep("unfitted landscaper kept by the caller: transform, then transform of other data")
def _(P, v):
    a = P["plx"].transform([P["D1"]])
    b = P["plx"].transform([P["D2"]])
    return [a, b]
@ep("gromov_hausdorff on a CSR matrix with explicitly stored zeros")
def _(P, v):
    np.random.seed(18)
    return list(persim.gromov_hausdorff(P["G1z"], P["G2"]))
@ep("landscapes from nested lists with a trailing essential class")
def _(P, v):
    with warnings.catch_warnings():
        warnings.simplefilter("ignore")
        e = PersLandscapeExact(dgms=[P["Dinfl"]], hom_deg=0)
        a = PersLandscapeApprox(dgms=[P["Dinfl"]], hom_deg=0, start=0, stop=8, num_steps=9)
    return [e, a, e.p_norm(2), a.sup_norm()]
@ep("grid landscape on the caller's values array: norms, arithmetic, pairs")
def _(P, v):
    L = PersLandscapeApprox(values=P["vals"], hom_deg=0, start=0, stop=8, num_steps=9)
    return [L.sup_norm(), L.p_norm(1), L.p_norm(2), -L, L * 2.0, L - L, L.values_to_pairs(), L[0]]
@ep("persistent_entropy", F2)
def _(P, v): return persistent_entropy(V(P, "D1", v, F2))
@ep("persistent_entropy list keep_inf")
def _(P, v): return persistent_entropy([P["Dinf"], P["D2"]], keep_inf=True, val_inf=9.0, normalize=True)
@ep("persistent_entropy drop inf")
def _(P, v): return persistent_entropy(P["Dinf"])
@ep("kernel gaussian corr")
def _(P, v): return images_kernels.gaussian(P["xs"], P["ys"], mu=np.array([0.5, 1.0]), sigma=np.array([[1.0, 0.6], [0.6, 2.0]]))
@ep("kernel gaussian diag")
def _(P, v): return images_kernels.gaussian(P["xs"], P["ys"], mu=np.array([0.5, 1.0]), sigma=np.array([[1.0, 0.0], [0.0, 2.0]]))
@ep("kernel bvn_cdf high")
def _(P, v): return images_kernels.bvn_cdf(P["xs"], P["ys"], sigma_xy=0.95)
@ep("kernel norm_cdf")
def _(P, v): return images_kernels.norm_cdf(P["xs"])
@ep("kernel uniform")
def _(P, v): return images_kernels.uniform(P["xs"], P["ys"], mu=np.array([0.0, 1.0]), width=2, height=3)
@ep("weight linear_ramp")
def _(P, v): return images_weights.linear_ramp(P["xs"], P["ys"], low=0.0, high=2.0, start=0.0, end=2.0)
@ep("weight persistence")
def _(P, v): return images_weights.persistence(P["xs"], P["ys"], n=2.0)
@ep("imager transform", F2)
def _(P, v): return P["pim"].transform(V(P, "D1", v, F2))
@ep("imager transform list", F2)
def _(P, v): return list(P["pim"].transform([V(P, "D1", v, F2), V(P, "D2", v, F2)]))
@ep("imager transform skew=False")
def _(P, v): return P["pim"].transform(P["BP"], skew=False)
@ep("imager isotropic sigma=0.25 transform", F2)
def _(P, v): return P["pims"].transform(V(P, "D1", v, F2))
@ep("imager isotropic sigma=0.25 transform list")
def _(P, v): return list(P["pims"].transform([P["D2"], P["D1"]]))
@ep("imager axis-aligned sigma transform")
def _(P, v): return P["pima"].transform(P["D2"])
@ep("imager transform n_jobs=1")
def _(P, v): return list(P["pim"].transform([P["D1"], P["D2"]], n_jobs=1))
@ep("imager uniform transform")
def _(P, v): return P["pimu"].transform(P["D2"])
@ep("imager fit_transform (fresh imager)", F2)
def _(P, v):
    pim = PersistenceImager(pixel_size=1.0)
    return [list(pim.fit_transform([V(P, "D1", v, F2), V(P, "D2", v, F2)])), dig(pim)]
@ep("imager fit (fresh imager)")
def _(P, v):
    pim = PersistenceImager(pixel_size=1.0)
    pim.fit(P["D1"])
    return dig(pim)
@ep("imager plot_diagram")
def _(P, v):
    a, b = ax2()
    r = P["pim"].plot_diagram(P["D1"], ax=a)
    out = dig(r); plt.close("all"); return out
@ep("imager plot_image")
def _(P, v):
    a, b = ax2()
    P["pim"].plot_image(P["img"], ax=a)
    plt.close("all"); return None
@ep("PersLandscapeExact construct")
def _(P, v): return PersLandscapeExact(dgms=[P["D1"], P["D2"]], hom_deg=1)
@ep("exact p_norm")
def _(P, v): return [P["ple1"].p_norm(2), P["ple1"].p_norm(3), P["ple1"].sup_norm()]
@ep("exact add")
def _(P, v): return P["ple1"] + P["ple2"]
@ep("exact sub norm")
def _(P, v): return (P["ple1"] - P["ple2"]).p_norm(2)
@ep("exact mul rmul")
def _(P, v): return [P["ple1"] * 2.0, 3 * P["ple2"]]
@ep("exact div")
def _(P, v): return P["ple1"] / 4.0
@ep("exact neg")
def _(P, v): return -P["ple2"]
@ep("exact add (deeper right operand)")
def _(P, v): return P["ple2"] + P["ple1"]
@ep("exact getitem")
def _(P, v): return P["ple1"][0]
@ep("PersLandscapeApprox construct")
def _(P, v): return PersLandscapeApprox(dgms=[P["D1"], P["D2"]], hom_deg=0, num_steps=7)
@ep("approx add")
def _(P, v): return P["pla1"] + P["pla2"]
@ep("approx sub")
def _(P, v): return P["pla1"] - P["pla2"]
@ep("approx sub (shallower left operand)")
def _(P, v): return P["pla2"] - P["pla1"]
@ep("approx mul")
def _(P, v): return P["pla1"] * 2.0
@ep("approx div")
def _(P, v): return P["pla1"] / 2.0
@ep("approx neg")
def _(P, v): return -P["pla1"]
@ep("approx norms")
def _(P, v): return [P["pla1"].p_norm(2), P["pla1"].sup_norm()]
@ep("approx values_to_pairs")
def _(P, v): return P["pla2"].values_to_pairs()
@ep("snap_pl")
def _(P, v): return list(snap_pl([P["pla1"], P["pla3"]]))
@ep("lc_approx")
def _(P, v): return lc_approx([P["pla1"], P["pla3"], P["pla2"]], [1.0, -2.0, 0.5])
@ep("average_approx")
def _(P, v): return average_approx([P["pla1"], P["pla2"]])
@ep("vectorize")
def _(P, v): return vectorize(P["ple1"], num_steps=11)
@ep("death_vector")
def _(P, v): return list(death_vector([P["D1"], P["D2"]]))
@ep("PersistenceLandscaper fit_transform")
def _(P, v):
    pl = PersistenceLandscaper(hom_deg=0, num_steps=6, flatten=True)
    return [pl.fit_transform([P["D1"], P["D2"]]), dig(pl)]
@ep("plot_diagrams", ("", "f32"))
def _(P, v):
    a, b = ax2()
    persim.plot_diagrams([V(P, "D1", v, ("", "f32")), P["D2"]], ax=a)
    out = dig(a); plt.close("all"); return out
@ep("plot_diagrams lifetime", ("", "f32"))
def _(P, v):
    a, b = ax2()
    persim.plot_diagrams(V(P, "D1", v, ("", "f32")), lifetime=True, ax=a, legend=False)
    out = dig(a); plt.close("all"); return out
@ep("plot_diagrams inf")
def _(P, v):
    a, b = ax2()
    persim.plot_diagrams([P["Dinf"], P["Dinf32"]], ax=a, title="t", labels=["a", "b"])
    out = dig(a); plt.close("all"); return out
@ep("bottleneck_matching plot")
def _(P, v):
    a, b = ax2()
    d, m = persim.bottleneck(P["D1"], P["D2"], matching=True)
    persim.bottleneck_matching(P["D1"], P["D2"], m, ax=a)
    plt.close("all"); return d
@ep("wasserstein_matching plot")
def _(P, v):
    a, b = ax2()
    d, m = persim.wasserstein(P["D1"], P["D2"], matching=True)
    persim.wasserstein_matching(P["D1"], P["D2"], m, ax=a)
    plt.close("all"); return d
@ep("plot_landscape_simple exact")
def _(P, v):
    a, b = ax2()
    lv.plot_landscape_simple(P["ple1"], ax=a)
    out = dig(a); plt.close("all"); return out
@ep("plot_landscape_simple approx")
def _(P, v):
    a, b = ax2()
    lv.plot_landscape_simple(P["pla1"], ax=a)
    out = dig(a); plt.close("all"); return out


@ep("plot_landscape 3-D exact")
def _(P, v):
    lv.plot_landscape(P["ple1"], num_steps=40)
    plt.close("all"); return None
@ep("plot_landscape 3-D approx")
def _(P, v):
    lv.plot_landscape(P["pla1"], num_steps=40)
    plt.close("all"); return None
@ep("PersImage (deprecated) transform", F2)
def _(P, v):
    from persim import PersImage
    pim = PersImage(pixels=(4, 4), verbose=False)
    return [pim.transform(V(P, "D1", v, F2)), pim.transform([P["D2"], P["D1"]])]
@ep("imager plot_diagram skew=False")
def _(P, v):
    a, b = ax2()
    r = P["pim"].plot_diagram(P["BP"], skew=False, ax=a)
    out = dig(r); plt.close("all"); return out


@ep("imager linear_ramp weight transform", F3)
def _(P, v):
    pim = PersistenceImager(birth_range=(0.0, 6.0), pers_range=(0.0, 6.0), pixel_size=2.0, weight=images_weights.linear_ramp,
                            weight_params={"low": 0.0, "high": 1.0, "start": 0.0, "end": 5.0}, kernel_params={"sigma": 0.5})
    return pim.transform(V(P, "D3", v, F3))
@ep("imager built from the caller's parameter dicts")
def _(P, v):
    pim = PersistenceImager(birth_range=(0.0, 6.0), pers_range=(0.0, 6.0), pixel_size=2.0, weight=images_weights.linear_ramp,
                            weight_params=P["wp"], kernel_params=P["kp"])
    return [pim.transform(P["D3"]), dig(pim)]
@ep("default imager transform (fresh instance)")
def _(P, v):
    pim = PersistenceImager()
    return [pim.transform(P["BP"] / 4.0), dig(pim), repr(pim)]
@ep("default imager, its own parameter dicts edited in place, transform")
def _(P, v):
    pim = PersistenceImager()
    pim.kernel_params["sigma"] = 0.05
    pim.weight_params["n"] = 3.0
    return pim.transform(P["BP"] / 4.0)
@ep("default PersistenceLandscaper / PersLandscapeApprox (fresh instances)")
def _(P, v):
    pl = PersistenceLandscaper()
    out = pl.fit_transform([P["D1"], P["D2"]])
    pa = PersLandscapeApprox(dgms=[P["D2"]], hom_deg=0)
    return [out, dig(pl), pa]
@ep("PersistenceLandscaper attributes edited, transform (own instance)")
def _(P, v):
    pl = PersistenceLandscaper(hom_deg=0, num_steps=5)
    pl.fit([P["D1"]])
    pl.num_steps = 9
    return pl.transform([P["D1"]])


def handler(job):
    if job.get("list"):
        return {"names": [n for n, _, _ in FNS], "nvariants": [len(f) for _, _, f in FNS]}
    P = make_pool()
    before = pool_digest(P)
    evs = []
    for f, v in job["calls"]:
        name, fn, forms = FNS[f - 1]
        ev = {"fn": f, "variant": v}
        try:
            with warnings.catch_warnings():
                warnings.simplefilter("ignore")
                with np.errstate(all="ignore"):
                    r = fn(P, v)
            ev["res"] = h(dig(r)); ev["raised"] = 0
        except Exception as e:
            ev["res"] = h(repr(type(e)).encode()); ev["raised"] = 1; ev["exc"] = type(e).__name__ + ": " + str(e)[:120]
        plt.close("all")
        after = pool_digest(P)
        ev["mutated"] = sorted(k for k in after if after[k] != before[k])
        before = after
        evs.append(ev)
    return {"events": evs}


serve(handler)
