import hashlib, warnings, sys, os
import numpy as np
import matplotlib
matplotlib.use("Agg")
import matplotlib.pyplot as plt
sys.path.insert(0, os.path.dirname(os.path.abspath(__file__)))
from _base import serve
from persim import PersLandscapeExact, PersLandscapeApprox
from persim.landscapes import snap_pl, lc_approx, average_approx, vectorize, plot_landscape_simple, plot_landscape
from algebra import content, forced


def h(b):
    return int.from_bytes(hashlib.sha256(b).digest()[:4], "big") >> 1


def dig(x):
    if isinstance(x, (PersLandscapeExact, PersLandscapeApprox)):
        return repr(content(forced(x))).encode()          # by value, through a computed deep copy: the object itself is not touched
    if isinstance(x, (list, tuple)):
        return b"L" + b"|".join(dig(y) for y in x)
    if isinstance(x, np.ndarray):
        return b"A" + str(x.shape).encode() + np.ascontiguousarray(x, dtype=float).tobytes()
    if isinstance(x, (float, np.floating)):
        return b"F" + np.float64(x).tobytes()
    return repr(x).encode()


def scene(ax):
    parts = [np.asarray(l.get_xdata(), dtype=float).tobytes() + np.asarray(l.get_ydata(), dtype=float).tobytes() for l in ax.lines]
    for c in ax.collections:
        try:
            parts.append(b"".join(np.asarray(p.vertices, dtype=float).tobytes() for p in c.get_paths()))
        except Exception:
            pass
    return h(b"|".join(parts))


def plot2(x):
    fig, ax = plt.subplots()
    plot_landscape_simple(x, ax=ax)
    return scene(ax)


def plot3(x):
    plot_landscape(x, num_steps=12)
    fig = plt.gcf()
    return [scene(a) for a in fig.axes]


OPS = {
    "getitem": lambda x, y, g: x[0], "getslice": lambda x, y, g: x[0:2], "p_norm": lambda x, y, g: [x.p_norm(1), x.p_norm(2), x.p_norm(3)], "sup_norm": lambda x, y, g: x.sup_norm(),
    "neg": lambda x, y, g: -x, "mul": lambda x, y, g: x * 2.0, "rmul": lambda x, y, g: 0.5 * x, "div": lambda x, y, g: x / 4.0, "repr": lambda x, y, g: repr(x),
    "vectorize": lambda x, y, g: vectorize(x, start=g[0], stop=g[1], num_steps=g[2]), "pairs": lambda x, y, g: x.values_to_pairs(),
    "plot": lambda x, y, g: plot2(x), "plot3d": lambda x, y, g: plot3(x),
    "add": lambda x, y, g: x + y, "sub": lambda x, y, g: x - y, "snap": lambda x, y, g: list(snap_pl([x, y])), "lc": lambda x, y, g: lc_approx([x, y], [1.0, -2.0]),
    "avg": lambda x, y, g: average_approx([x, y]),
}


def handler(job):
    g = job["grid"]
    DP = [np.array(d, dtype=float).reshape(-1, 2) for d in job["P"]]
    DQ = [np.array(d, dtype=float).reshape(-1, 2) for d in job["Q"]]
    hom = job["hom"]
    def mk(D, lazy):
        if job["klass"] == "exact":
            return PersLandscapeExact(dgms=[d.copy() for d in D], hom_deg=hom, compute=not lazy)
        return PersLandscapeApprox(dgms=[d.copy() for d in D], hom_deg=hom, start=g[0], stop=g[1], num_steps=g[2], compute=not lazy)
    out = []
    for hist in job["hists"]:
        runs = []
        for lazyP, lazyQ in (job["lazy"], (0, 0)):
            env = {"P": mk(DP, lazyP), "Q": mk(DQ, lazyQ)}
            evs = []
            for op, x, y in hist:
                try:
                    with warnings.catch_warnings():
                        warnings.simplefilter("ignore")
                        with np.errstate(all="ignore"):
                            r = OPS[op](env[x], env[y], g)
                    d, raised = h(dig(r)), 0
                except Exception as e:
                    d, raised = h(type(e).__name__.encode()), 1
                plt.close("all")
                evs.append([d, raised, h(dig(env["P"]) + b"#" + dig(env["Q"]))])
            runs.append(evs)
        out.append([[op, x, y, a[0], a[1], b[0], b[1], a[2], b[2]] for (op, x, y), a, b in zip(hist, runs[0], runs[1])])
    return {"events": out}


serve(handler)
