import numpy as np, warnings
import scipy.sparse as sps
from _base import serve, fl
import persim
import sys
gh = sys.modules["persim.gromov_hausdorff"]


def build(g):
    n, edges, r = g["n"], g["edges"], g["repr"]
    A = np.zeros((n, n), dtype=r.get("dtype", "int64"))
    for i, j in edges:
        a, b = i - 1, j - 1
        if r.get("sym"):
            A[a, b] = A[b, a] = 1
        elif r.get("mixed"):     # an edge list with mixed orientations: each undirected edge stored once, above OR below the diagonal
            if (a * 7 + b * 3) % 2:
                A[max(a, b), min(a, b)] = 1
            else:
                A[min(a, b), max(a, b)] = 1
        elif r.get("lower"):
            A[max(a, b), min(a, b)] = 1
        else:
            A[min(a, b), max(a, b)] = 1
    k = r["kind"]
    if k == "list":
        return A.tolist()
    if k == "tuple":
        return tuple(tuple(row) for row in A.tolist())
    if k == "dense":
        return A
    if k == "csr":
        return sps.csr_matrix(A)
    if k == "csc":
        return sps.csc_matrix(A)
    if k == "lil":
        return sps.lil_matrix(A)
    if k == "csr_array":
        return sps.csr_array(A)
    raise ValueError(k)


def snapshot(x):
    if sps.issparse(x):
        c = x.tocoo()
        return (c.row.tobytes(), c.col.tobytes(), c.data.tobytes(), x.shape)
    if isinstance(x, np.ndarray):
        return x.tobytes()
    return repr(x)


def handler(job):
    if job["call"] == "feas":
        # value-indexed distributions (index 0 = value 1) -> the code's reversed layout (largest value first)
        v = np.array(job["v"][::-1]); u = np.array(job["u"][::-1])
        return {"feasible": bool(gh.check_assignment_feasibility(v, u, job["d"]))}
    samples = []
    orig = gh.construct_mapping
    hooked = True

    first = []

    def wrapped(DX, DY, pi):
        imgs, dist = orig(DX, DY, pi)
        if not first:
            first.append(DX)
        samples.append([1 if DX is first[0] else 2, [int(x) + 1 for x in pi], [int(y) + 1 for y in imgs], int(dist)])
        return imgs, dist
    try:
        gh.construct_mapping = wrapped
    except Exception:
        hooked = False
    objs = [build(g) for g in job["graphs"]]
    before = [snapshot(o) for o in objs]
    kw = {}
    if job.get("order") is not None:
        kw["mapping_sample_size_order"] = np.array(job["order"], dtype=float)
    np.random.seed(job.get("seed", 0))
    out = {"hooked": hooked}
    try:
        with warnings.catch_warnings(record=True) as w:
            warnings.simplefilter("always", append=True)
            if job["call"] == "pair":
                lb, ub = persim.gromov_hausdorff(objs[0], objs[1], **kw)
                out["lb"], out["ub"] = fl(lb), fl(ub)
            else:
                lbs, ubs = persim.gromov_hausdorff(objs, **kw)
                out["lbs"] = [[fl(x) for x in row] for row in np.asarray(lbs)]
                out["ubs"] = [[fl(x) for x in row] for row in np.asarray(ubs)]
        out["warn"] = int(any("disconnected" in str(x.message) for x in w))
    except Exception as e:
        out["raised"] = type(e).__name__
        out["msg"] = str(e)[:200]
    finally:
        gh.construct_mapping = orig
    out["samples"] = samples
    out["mutated"] = [snapshot(o) for o in objs] != before
    return out


serve(handler)
