"""LazyLandscape.tla: the laziness protocol of landscape objects (shared by C08 / C09 / C10; see the spec's header)."""
import json, os
from . import tlc
from .common import mktempdir, run_driver_parallel

OWNED = {"C09": {"add", "sub", "neg", "mul", "rmul", "div", "snap", "lc", "avg"}, "C10": {"p_norm", "sup_norm"}, "C08": {"vectorize", "pairs"}}
RULE = (" Laziness protocol (LazyLandscape.tla): every history of <=2 (thorough 3) operations over two landscape objects built with compute=False "
        "(TLC enumerates them; AlwaysSeesComputed / ComputedIsStable hold for the intended machine and are refuted for the pre-repair and a "
        "right-operand-unforced implementation) is replayed on lazily built exact and grid landscapes and on eagerly built twins; TraceLazy.tla "
        "requires identical results, exceptions and operand contents at every step.")


def run(ctx, mine, quick):
    maxlen = 2 if quick else 3
    for klass in ("Exact", "Approx"):
        cst = dict(Unary="<-Unary" + klass, Binary="<-Binary" + klass, MaxLen=3, Unforced="<-NoneUnforced", LazyP=True, LazyQ=True)
        r = tlc.run_tlc("LazyLandscape", workers=8, constants=cst, invariants=["AlwaysSeesComputed"], properties=["ComputedIsStable"], heap="3g")
        ctx.model("LazyLandscape (%s operations, intended machine)" % klass, r)
    for unf in ("PreRepairUnforced", "RightOperandUnforced"):
        cst = dict(Unary="<-UnaryApprox", Binary="<-BinaryApprox", MaxLen=2, Unforced="<-" + unf, LazyP=True, LazyQ=True)
        r = tlc.run_tlc("LazyLandscape", workers=2, constants=cst, invariants=["AlwaysSeesComputed"], heap="2g")
        ctx.model("LazyLandscape with %s (a defective implementation; AlwaysSeesComputed must be refuted)" % unf, r, expect_violation="AlwaysSeesComputed")
    rng = ctx.rng
    jobs, meta = [], []
    for klass in ("exact", "approx"):
        dump = os.path.join(mktempdir(prefix="lazydump_"), "dump.json")
        K = klass.capitalize()
        r = tlc.run_tlc("LazyLandscape", workers=1, env={"DUMP_FILE": dump}, init="DumpInit", nxt="DumpNext",
                        constants=dict(Unary="<-Unary" + K, Binary="<-Binary" + K, MaxLen=maxlen, Unforced="<-NoneUnforced", LazyP=True, LazyQ=True), heap="4g")
        if r["error"] or not os.path.exists(dump):
            ctx.machinery_errors.append("LazyLandscape dump failed:\n" + r["out"][-1500:]); return
        hists = json.load(open(dump)); os.remove(dump)
        ctx.extra.setdefault("spec_generated_lazy_histories", {})[klass] = len(hists)
        # histories that involve an operation this property owns come first; the others are sampled
        own = [hh for hh in hists if any(s[0] in OWNED[mine] for s in hh)]
        rest = [hh for hh in hists if not any(s[0] in OWNED[mine] for s in hh)]
        rng.shuffle(own); rng.shuffle(rest)
        sel = own[: (700 if quick else 20000)] + rest[: (60 if quick else 2000)]
        for t in range(0, len(sel), 40):
            hom = rng.choice([0, 1])
            def dgm():
                bars = []
                for _ in range(rng.randint(1, 4)):
                    b = rng.randint(0, 6)
                    bars.append([b, b + rng.randint(1, 4)])
                return bars
            fill = [[[0, 2]]] * hom
            P, Q = fill + [dgm()], fill + [dgm() + [[0, 8]]]
            lazy = rng.choice([[1, 1], [1, 0], [0, 1]])
            jobs.append(dict(klass=klass, P=P, Q=Q, hom=hom, grid=[0.0, 10.0, 11], hists=sel[t:t + 40], lazy=lazy))
            meta.append((klass, lazy))
    res, _ = run_driver_parallel("lazy.py", jobs, nproc=12)
    cases, cmeta = [], []
    for j, (klass, lazy), r in zip(jobs, meta, res):
        if "events" not in r:
            ctx.failure({"clause": "no-result", "detail": str(r)[:200]}, {"kind": "lazy", "job": j}); continue
        for hist, evs in zip(j["hists"], r["events"]):
            cases.append(dict(klass=klass, lazy=lazy, events=evs)); cmeta.append((j, hist))
    verdicts, st = tlc.run_batch("TraceLazy", cases, nproc=8)
    ctx.extra.setdefault("trace_validation_runs", []).append(dict(label="R-lazy", cases=len(cases), tlc_states=st["states"], wall_s=round(st["wall"], 1)))
    other = 0
    for c, v, (j, hist) in zip(cases, verdicts, cmeta):
        ctx.count(1, key=("lazy", c["klass"], str(hist), str(c["lazy"]), str(j["P"]), str(j["Q"])), nontrivial=len(hist) >= 2)
        if v[2] == "ok":
            ctx.ok_trace()
            continue
        op = hist[v[3] - 1][0]
        if op in OWNED[mine]:
            ctx.failure({"clause": v[4], "operation": op, "class": c["klass"], "lazily_built": c["lazy"]},
                        {"kind": "lazy", "job": dict(j, hists=[hist])})
        else:
            other += 1
            ctx.traces_total += 1
    if other:
        ctx.extra["lazy_histories_failing_on_operations_owned_elsewhere"] = other
        ctx.notes.append("%d lazy histories differ from their eager twins at an operation this property does not own (see C08/C09/C10)" % other)


def replay(ctx, rec):
    from .common import run_driver
    j = rec["case"]["job"]
    r = run_driver("lazy.py", {"jobs": [j]})["results"][0]
    if "events" not in r:
        ctx.failure({"clause": "no-result"}, rec["case"]); return
    v, _ = tlc.run_batch("TraceLazy", [dict(klass=j["klass"], lazy=j["lazy"], events=r["events"][0])], nproc=1)
    if v[0][2] == "ok":
        ctx.ok_trace()
    else:
        ctx.failure({"clause": v[0][4]}, rec["case"])
