"""C14 -- heat-kernel distance is a real pseudo-metric, stable w.r.t. Wasserstein."""
import math
from fractions import Fraction
from .. import tlc, laws
from ..common import EXACT_EMBS, DEC_EMBS
LEVEL = "exploration"

RULE = ("Exact anchor: on lattice diagrams with sigma = 1/(8 ln 2) the kernel is k(F,G) = (ln2/pi) * sum 2^-|p-q|^2 - 2^-|p-mirror(q)|^2, "
        "dyadic rationals that MetricLaws.tla evaluates in fixed point; it requires heat^2 * pi / ln2 = K2(F,F)+K2(G,G)-2K2(F,G) (1e-6 "
        "relative, which pins kernel shape, mirrored point and the 1/(8 pi sigma) normalisation), under several embeddings through the "
        "scaling law heat(cF,cG,c^2 sigma) = heat(F,G,sigma)/c. Laws for arbitrary sigma in {0.05..5} and sessions of related diagrams "
        "(reorderings, nearly identical copies, extra diagonal points, diagonal translates, 5..40 points): never NaN / finite / >= 0, zero "
        "between reorderings (<= 1e-6 n / sqrt(8 pi sigma)), symmetry, triangle over all triples, diagonal points ignored, translation "
        "invariance, heat <= W1/(4 sigma sqrt(pi)) with both sides observed. Non-trivial = session with multi-point diagrams; "
        "evaluations = calls into persim.heat. No state space: level exploration.")


def run(ctx):
    quick = ctx.tier == "quick"
    ctx.rule = RULE
    ctx.level = "exploration"
    ctx.assumptions += ["absolute values only on the sigma = 1/(8 ln 2) lattice family (exp becomes a power of two); elsewhere laws",
                        "constants ln 2, pi, sqrt(pi) from the generated Tables.tla"]
    # the only model-level content: the constants the anchor relies on (Tables ASSUMEs) are re-evaluated by TLC here
    r = tlc.run_tlc("TestTables", init="Init", nxt="Next")
    ctx.model("Tables.tla constant relations (ASSUME)", r)
    rng = ctx.rng
    embs = EXACT_EMBS[:4] + DEC_EMBS[:3]
    specs = []
    sig_anchor = 1.0 / (8.0 * math.log(2.0))
    for i in range(40 if quick else 400):
        sess = [laws.rand_dgm(rng, rng.randint(1, 5), 6, diag=0.15) for _ in range(3)]
        sess.append(rng.sample(sess[0], len(sess[0])))
        if i % 3 == 0:   # nearly identical diagrams at large filtration values: a copy moved far along the diagonal and its 1-tick perturbation
            T = rng.choice([10 ** 5, 10 ** 6, 10 ** 7])
            far = [[b + T, d + T] for b, d in sess[0]]
            near = [list(p) for p in far]
            near[rng.randrange(len(near))][1] += 1
            sess += [far, near]
        n = max(len(d) for d in sess)
        specs.append(dict(session=sess, fn="heat", emb=(embs[i % len(embs)] if i % 3 else [DEC_EMBS[0], EXACT_EMBS[0], DEC_EMBS[0], DEC_EMBS[2]][(i // 3) % 4]), sigma_t=sig_anchor, anchor=1, aux=[], zerotol=Fraction(n, 10 ** 6) / Fraction(math.sqrt(8 * math.pi * sig_anchor))))
    for i in range(14 if quick else 120):
        sigma_t = rng.choice([0.05, 0.4, 1.0, 2.5, 5.0])
        sess = laws.make_session(rng, 3, 14 if quick else 40, rng.choice([6, 12, 30]), neg=(i % 4 == 3), with_empty=(i % 2 == 0))
        n = max(len(d) for d in sess)
        specs.append(dict(session=sess, fn="heat", emb=embs[i % len(embs)], sigma_t=sigma_t, anchor=0, aux=["W"],
                          zerotol=Fraction(n, 10 ** 6) / Fraction(math.sqrt(8 * math.pi * sigma_t))))
    # argument objects: fresh float arrays per call, or ONE set of float64 arrays / integer-dtype arrays / nested lists (of floats, of ints)
    # shared by all calls of the session; half of the shared sessions are then overwritten in place with doubled coordinates and evaluated
    # again (a value remembered per argument OBJECT instead of per argument VALUE shows there)
    for i, sp in enumerate(specs):
        sp["container"] = [None, "array", "int", "list", "intlist", "array", "int"][i % 7]
        sp["edit"] = int(bool(sp["container"]) and i % 2 == 0)
    laws.run_sessions(ctx, specs, "V")


def replay(ctx, rec):
    laws.replay(ctx, rec)
