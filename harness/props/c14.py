"""C14 -- heat-kernel distance is a real pseudo-metric, stable w.r.t. Wasserstein."""
import math
from fractions import Fraction
from .. import tlc, laws
from ..common import EXACT_EMBS, DEC_EMBS, EXTREME_EMBS
LEVEL = "model_checking"

RULE = ("M: HeatKernel.tla -- persim.heat as a state machine, exact in integers at sigma = 1/(8 ln 2) (one action per iteration of the double loop, three kernel evaluations, clamped squared norm): PartialIsDef, ResultIsKernelFormula, SquaredNormNonNegative (the clamp only absorbs rounding), ZeroBetweenReorderings, Symmetric, DiagonalPointsIgnored, TranslationInvariant, Triangle (decided on the squares), InputsUntouched, for every pair of lattice diagrams within the constants. R: every pair TLC enumerated, with the numerator of the squared norm, is run through the real function under exact embeddings and decided by TraceHeat.tla with the model's own operators (1e-9). V: Exact anchor: on lattice diagrams with sigma = 1/(8 ln 2) the kernel is k(F,G) = (ln2/pi) * sum 2^-|p-q|^2 - 2^-|p-mirror(q)|^2, "
        "dyadic rationals that MetricLaws.tla evaluates in fixed point; it requires heat^2 * pi / ln2 = K2(F,F)+K2(G,G)-2K2(F,G) (1e-6 "
        "relative, which pins kernel shape, mirrored point and the 1/(8 pi sigma) normalisation), under several embeddings through the "
        "scaling law heat(cF,cG,c^2 sigma) = heat(F,G,sigma)/c. Laws for arbitrary sigma in {0.05..5} and sessions of related diagrams "
        "(reorderings, nearly identical copies, extra diagonal points, diagonal translates, 5..40 points): never NaN / finite / >= 0, zero "
        "between reorderings (<= 1e-6 n / sqrt(8 pi sigma)), symmetry, triangle over all triples, diagonal points ignored, translation "
        "invariance, heat <= W1/(4 sigma sqrt(pi)) with both sides observed. Non-trivial = session with multi-point diagrams; "
        "evaluations = calls into persim.heat. ")


def run(ctx):
    quick = ctx.tier == "quick"
    ctx.rule = RULE
    ctx.assumptions += ["absolute values only on the sigma = 1/(8 ln 2) lattice family (exp becomes a power of two); elsewhere laws",
                        "constants ln 2, pi, sqrt(pi) from the generated Tables.tla"]
    # the only model-level content: the constants the anchor relies on (Tables ASSUMEs) are re-evaluated by TLC here
    r = tlc.run_tlc("TestTables", init="Init", nxt="Next")
    ctx.model("Tables.tla constant relations (ASSUME)", r)
    rng = ctx.rng
    machine(ctx, quick)
    embs = EXACT_EMBS[:4] + DEC_EMBS[:3]
    specs = []
    sig_anchor = 1.0 / (8.0 * math.log(2.0))
    for i in range(40 if quick else 400):
        sess = [laws.rand_dgm(rng, rng.randint(1, 5), 6, diag=0.15) for _ in range(3)]
        sess.append(rng.sample(sess[0], len(sess[0])))
        if i % 3 == 0:   # nearly identical diagrams at large filtration values: a copy moved far along the diagonal and its 1-tick perturbation
            T = rng.choice([10 ** 5, 10 ** 6, 10 ** 7])
            far = [[b + T, d + T] for b, d in sess[0]]
            near = [list(p) for p in far]
            near[rng.randrange(len(near))][1] += 1
            sess += [far, near]
        n = max(len(d) for d in sess)
        specs.append(dict(session=sess, fn="heat", emb=(embs[i % len(embs)] if i % 3 else [DEC_EMBS[0], EXACT_EMBS[0], DEC_EMBS[0], DEC_EMBS[2]][(i // 3) % 4]), sigma_t=sig_anchor, anchor=1, aux=[], zerotol=Fraction(n, 10 ** 6) / Fraction(math.sqrt(8 * math.pi * sig_anchor))))
    for i in range(14 if quick else 120):
        sigma_t = rng.choice([0.05, 0.4, 1.0, 2.5, 5.0, 100.0, 2500.0])      # (for large bandwidths the stability bound is nearly attained)
        # (every third session is translated far along the diagonal, and the embeddings include the scales 2^-50 .. 2^60: persistence tiny
        #  relative to the coordinates, or tiny / huge in absolute terms, on BOTH sides of the comparison with the Wasserstein distance)
        sess = laws.make_session(rng, 3, 14 if quick else 40, rng.choice([6, 12, 30]), neg=(i % 4 == 3), with_empty=(i % 2 == 0), far=(i % 3 == 1))
        n = max(len(d) for d in sess)
        specs.append(dict(session=sess, fn="heat", emb=(embs + EXACT_EMBS[4:6] + EXTREME_EMBS)[i % (len(embs) + 4)] if i % 3 != 1 else EXACT_EMBS[i % 4], sigma_t=sigma_t, anchor=0, aux=["W"],
                          zerotol=Fraction(n, 10 ** 6) / Fraction(math.sqrt(8 * math.pi * sigma_t))))
    # whole-number bandwidths (handed over as Python ints by the session machinery): heat(F, G, sigma=1) must be heat(F, G, sigma=1.0)
    for i in range(6 if quick else 40):
        sigma_t = [1.0, 2.0, 5.0][i % 3]
        sess = laws.make_session(rng, 2, 10, rng.choice([6, 12]), neg=(i % 2 == 1), with_empty=True)
        n = max(len(d) for d in sess)
        specs.append(dict(session=sess, fn="heat", emb=EXACT_EMBS[0], sigma_t=sigma_t, anchor=0, aux=["W", "SF"], zerotol=Fraction(n, 10 ** 6) / Fraction(math.sqrt(8 * math.pi * sigma_t))))
    # diagrams of more than a hundred pairs (real diagrams have hundreds; sizes that are not multiples of a power of two)
    for i in range(2 if quick else 8):
        sigma_t = [0.4, 5.0][i % 2]
        sess = laws.make_session(rng, 130, 165, 30, neg=False, with_empty=True, nbase=2)
        sess = [sess[q] for q in (0, 1, 2, 3, 11)] + ([[]] if i % 2 == 0 else [])      # X, Y, X reordered, X + diagonal points, X perturbed, (empty)
        n = max(len(d) for d in sess)
        specs.append(dict(session=sess, fn="heat", emb=[EXACT_EMBS[0], EXACT_EMBS[3], DEC_EMBS[0]][i % 3], sigma_t=sigma_t, anchor=0, aux=["W"], force_container="fresh", zerotol=Fraction(n, 10 ** 6) / Fraction(math.sqrt(8 * math.pi * sigma_t))))
    # unsigned containers whose coordinate DIFFERENCES and squared distances leave the dtype's range, under a bandwidth where the W1 bound is tight
    for i in range(4 if quick else 16):
        kind, tmax = [("uint8", 12), ("uint16", 3000)][i % 2]
        sigma_t = float(tmax * tmax * 16)
        sess = laws.make_session(rng, 2, 8, tmax, neg=False, with_empty=True)
        n = max(len(d) for d in sess)
        specs.append(dict(session=sess, fn="heat", emb=EXACT_EMBS[0], sigma_t=sigma_t, anchor=0, aux=["W"], force_container=kind, zerotol=Fraction(n, 10 ** 6) / Fraction(math.sqrt(8 * math.pi * sigma_t))))
    # argument objects: fresh float arrays per call, or ONE set of float64 arrays / integer-dtype arrays / nested lists (of floats, of ints)
    # shared by all calls of the session; half of the shared sessions are then overwritten in place with doubled coordinates and evaluated
    # again (a value remembered per argument OBJECT instead of per argument VALUE shows there)
    for i, sp in enumerate(specs):
        sp["container"] = laws.pick_container(rng, sp, [None, "array", "int", "list", "intlist", "uint8", "int16", "uint16", "int8", "int32"])
        if sp.get("force_container") == "fresh":      # (one job per pair, fresh float arrays: the Python double loop over 150 x 150 pairs is slow)
            sp["container"] = None
        elif sp.get("force_container") and laws.representable(sp, sp["force_container"]):
            sp["container"] = sp.pop("force_container")
        sp.pop("force_container", None)
        sp["edit"] = int(bool(sp["container"]) and i % 2 == 0)
        if sp["container"] in laws.NARROW:
            sp["edit"] = 0      # (doubling in place could leave the dtype\'s range)
    laws.run_sessions(ctx, specs, "V")


HEAT_INVS = ["PartialIsDef", "ResultIsKernelFormula", "SquaredNormNonNegative", "ZeroBetweenReorderings", "Symmetric", "DiagonalPointsIgnored", "TranslationInvariant", "Triangle"]


def heat_cases(pairs, embs, results):
    from ..common import unfl
    from ..fix import fix
    cases = []
    it = iter(results)
    for (F, G), e in zip(pairs, embs):
        obs = []
        for _ in range(2):
            r = next(it)
            v = unfl(r["dist"]) if "dist" in r else float("nan")
            obs.append([0, fix(0)] if (v != v or abs(v) == float("inf")) else [1, fix(Fraction(v) * e.s)])      # heat(cF, cG, c^2 sigma) = heat(F, G, sigma) / c
        cases.append(dict(F=F, G=G, h=obs[0], hsym=obs[1]))
    return cases


def machine(ctx, quick):
    import json, os
    from ..common import mktempdir, run_driver_parallel, EXTREME_EMBS
    rng = ctx.rng
    # (larger constants are out of reach: MaxC=3 overflows TLC's 32-bit integers in the exact kernel values, MaxC=2 with MaxPts=3 did not finish
    #  within 50 minutes -- triples of 3-point diagrams; the thorough tier deepens the replayed pairs and the sessions instead)
    for cst in [dict(MaxC=2, MaxPts=2)]:
        r = tlc.run_tlc("HeatKernel", workers=16, constants=cst, invariants=HEAT_INVS, properties=["InputsUntouched"], heap="8g", timeout=14400)
        ctx.model("HeatKernel (heat as a state machine, exact at sigma = 1/(8 ln 2)) %s" % cst, r, constants=cst)
    r = tlc.run_tlc("HeatKernel", workers=4, spec="FairSpec", constants=dict(MaxC=1, MaxPts=2), properties=["Termination"], heap="3g")
    ctx.model("HeatKernel liveness under WF (every call returns)", r)
    MaxC = 2      # (coordinates up to 3 overflow the fixed-point comparison of TraceHeat: the kernel values span 2^-18 .. 1)
    dump = os.path.join(mktempdir(prefix="heatdump_"), "dump.json")
    r = tlc.run_tlc("HeatKernel", workers=1, env={"DUMP_FILE": dump}, init="DumpInit", nxt="DumpNext", constants=dict(MaxC=MaxC, MaxPts=2), heap="6g")
    if r["error"] or not os.path.exists(dump):
        ctx.machinery_errors.append("HeatKernel dump failed:\n" + r["out"][-1500:]); return
    dumped = json.load(open(dump)); os.remove(dump)
    ctx.extra["spec_generated_heat_pairs"] = len(dumped)
    rng.shuffle(dumped)
    sel = dumped[: (900 if quick else 12000)]
    embs_all = EXACT_EMBS + EXTREME_EMBS[:1]
    pairs = [(c["F"], c["G"]) for c in sel]
    embs = [embs_all[t % len(embs_all)] for t in range(len(pairs))]
    sig0 = 1.0 / (8.0 * math.log(2.0))
    jobs = []
    for (F, G), e in zip(pairs, embs):
        sf = float(e.s) ** 2 * sig0
        for a, b in ((F, G), (G, F)):
            jobs.append(dict(fn="heat", S=[[e.f(x), e.f(y)] for x, y in a], T=[[e.f(x), e.f(y)] for x, y in b], sigma=sf, matching=False))
    results, _ = run_driver_parallel("distances.py", jobs, nproc=12)
    cases = heat_cases(pairs, embs, results)
    verdicts, st = tlc.run_batch("TraceHeat", cases, nproc=12, constants=dict(MaxC=MaxC), heap="3g")
    ctx.extra.setdefault("trace_validation_runs", []).append(dict(label="R-heat", cases=len(cases), tlc_states=st["states"], wall_s=round(st["wall"], 1)))
    for (F, G), e, c, v in zip(pairs, embs, cases, verdicts):
        ctx.count(2, key=("heatR", str(F), str(G), e.name), nontrivial=len(F) + len(G) >= 2)
        if v[2] == "ok":
            ctx.ok_trace()
        else:
            ctx.failure({"clause": v[3], "fn": "heat", "numerator_over_2^R": v[4]}, {"kind": "heatR", "F": F, "G": G, "emb": e.name, "MaxC": MaxC})


def replay(ctx, rec):
    c = rec["case"]
    if c.get("kind") == "heatR":
        from ..common import run_driver, EXTREME_EMBS
        e = next(x for x in EXACT_EMBS + EXTREME_EMBS if x.name == c["emb"])
        sf = float(e.s) ** 2 / (8.0 * math.log(2.0))
        jobs = [dict(fn="heat", S=[[e.f(x), e.f(y)] for x, y in a], T=[[e.f(x), e.f(y)] for x, y in b], sigma=sf, matching=False) for a, b in ((c["F"], c["G"]), (c["G"], c["F"]))]
        res = run_driver("distances.py", {"jobs": jobs})["results"]
        v, _ = tlc.run_batch("TraceHeat", heat_cases([(c["F"], c["G"])], [e], res), nproc=1, constants=dict(MaxC=c["MaxC"]))
        if v[0][2] == "ok":
            ctx.ok_trace()
        else:
            ctx.failure({"clause": v[0][3]}, c)
        return
    laws.replay(ctx, rec)
