"""C16 -- persistent entropy is the Shannon entropy of normalised bar lengths."""
import json, os, tempfile
from fractions import Fraction
from .. import tlc
from ..common import mktempdir as _mktempdir
from ..common import EXACT_EMBS, DEC_EMBS, unfl, run_driver_parallel
from ..fix import fix

RULE = ("M: PersistentEntropy.tla -- the pipeline (Listify, HandleInf, Lengths, RejectNonPositive, Shannon, Normalise) for every flag "
        "combination x every list of <=2 diagrams from a pool (dyadic families, equal bars, infinite bar, zero-length bar, negative bar, "
        "single bar) against the declarative ExpectedOutcome. R: TLC dumps all (input, flags) combinations, replayed through the real "
        "function. V: seeded Kraft-complete length multisets (entropy = ln2 * sum k_i 2^-k_i exactly, up to 12 bars), equal bars (= ln n, "
        "n<=24), general barcodes (bounds), each with reordered / translated / rescaled copies in the same call, infinite bars with every "
        "keep_inf/val_inf choice, non-positive bars (must raise), single array vs list. TraceEntropy.tla decides with Ln2/LnTab constants "
        "(Tables.tla) in fixed point, tolerance 1e-12. Non-trivial = >=2 bars of unequal length; distinct = (call, embedding).")


def kraft_ks(rng, nmax):
    ks = [0]
    while len(ks) < nmax and rng.random() < 0.8:
        i = rng.randrange(len(ks))
        if ks[i] >= 6:
            break
        k = ks.pop(i)
        ks += [k + 1, k + 1]
    return ks


def mk_dgm(rng, lens, tmax=40):
    out = []
    for l in lens:
        b = rng.randint(0, tmax)
        out.append([b, b + l, 1])
    rng.shuffle(out)
    return out


def gen_call(rng):
    kind = rng.choice(["kraft", "kraft", "equal", "general", "inf", "bad"])
    if kind == "kraft":
        ks = kraft_ks(rng, 12)
        m = max(ks)
        lens = [2 ** (m - k) * rng.choice([1, 1, 3]) for k in ks]
        c0 = lens[0] // (2 ** (m - ks[0]))
        lens = [2 ** (m - k) * c0 for k in ks]
    elif kind == "equal":
        lens = [rng.randint(1, 9)] * rng.randint(2, 24)
    else:
        lens = [rng.randint(1, 12) for _ in range(rng.randint(1, 10))]
    d = mk_dgm(rng, lens)
    dgms = [d]
    # related copies: reordered, translated (incl. negative), rescaled
    if rng.random() < 0.8:
        t = rng.choice([-50, -7, 13])
        cpy = [[b + t, dd + t, f] for b, dd, f in d]
        rng.shuffle(cpy)
        dgms.append(cpy)
        c = rng.choice([2, 3, 10])
        dgms.append([[b * c, dd * c, f] for b, dd, f in d])
    if rng.random() < 0.3:
        dgms.append(mk_dgm(rng, [rng.randint(1, 8) for _ in range(rng.randint(1, 6))]))
    ki, hasvi, vi = 0, 0, 0
    if kind == "inf" or rng.random() < 0.25:
        vi = rng.choice([60, 100, 5, 0, 0])   # 5 may lie below a birth: non-positive length => must raise
        for dd in dgms[:1 + rng.randrange(len(dgms))]:
            # substitution value 0 (a legal cap for classes born at negative values): infinite bars born below 0
            dd.insert(rng.randrange(len(dd) + 1), [rng.randint(-10, -1) if vi == 0 else rng.randint(0, 10), 0, 0])
        ki = rng.choice([0, 1, 1])
        hasvi = rng.choice([0, 1, 1]) if ki else rng.choice([0, 1])
    if rng.random() < 0.12:
        # a diagram with nothing but essential classes (empty once the infinite bars are dropped) and / or an empty diagram, among the others:
        # no value is prescribed for them, but the call must neither raise nor disturb the other diagrams' entries
        extra = [[[rng.randint(0, 5), 0, 0] for _ in range(rng.randint(1, 2))]] + ([[]] if rng.random() < 0.4 else [])
        for x in extra:
            dgms.insert(rng.randrange(len(dgms) + 1), x)
    if kind == "bad":
        q = rng.choice([i_ for i_ in range(len(dgms)) if dgms[i_]])
        b = rng.randint(0, 10)
        dgms[q].insert(rng.randrange(len(dgms[q]) + 1), [b, b - rng.choice([0, 0, 1, 3]), 1])
    nz = int(rng.random() < 0.4)
    islist = 1 if len(dgms) > 1 else rng.choice([0, 1])
    c = dict(dgms=dgms, keepinf=ki, hasvi=hasvi, vi=vi, normalize=nz, islist=islist)
    if rng.random() < 0.5:   # history: a second call on the same arrays with different infinity handling / normalisation
        c["second"] = dict(keepinf=rng.choice([0, 1]), hasvi=rng.choice([0, 1]), vi=rng.choice([60, 100]), normalize=int(rng.random() < 0.4))
    return c


def validate(ctx, calls, embs, label, nproc=12):
    jobs = []
    for c, e in zip(calls, embs):
        jobs.append(dict(flagtype=len(jobs) % 3, dgms=[[[e.f(b), e.f(d) if f else float("inf")] for b, d, f in dg] for dg in c["dgms"]], keepinf=c["keepinf"], hasvi=c["hasvi"],
                         vi=e.f(c["vi"]), normalize=c["normalize"], islist=c["islist"],
                         second=(dict(c["second"], vi=e.f(c["second"]["vi"])) if c.get("second") else None)))
    results, _ = run_driver_parallel("entropy.py", jobs, nproc=nproc)
    cases, idx = [], []
    for i, (c, r) in enumerate(zip(calls, results)):
        if r.get("machinery") or r.get("noresult") or ("vals" not in r and "raised_in" not in r):
            ctx.failure({"clause": "no-result", "detail": str(r)[:200]}, {"kind": "entropy", "call": c, "emb": embs[i].name}); continue
        def mk(flags, rr):
            cc = dict(dgms=c["dgms"], islist=c["islist"], **{k2: flags[k2] for k2 in ("keepinf", "hasvi", "vi", "normalize")})
            cc["raised"] = int("raised_in" in rr)
            vals = []
            for x in rr.get("vals", []):
                v = unfl(x)
                vals.append([0, fix(0)] if (v != v or abs(v) == float("inf")) else [1, fix(Fraction(v))])
            cc["vals"] = vals
            return cc
        cases.append(mk(c, r)); idx.append(i)
        if c.get("second") and "second" in r:
            cases.append(mk(c["second"], r["second"])); idx.append(i)
    verdicts, st = tlc.run_batch("TraceEntropy", cases, nproc=nproc, heap="2g")
    ctx.extra.setdefault("trace_validation_runs", []).append(dict(label=label, cases=len(cases), tlc_states=st["states"], wall_s=round(st["wall"], 1)))
    for c, v, i in zip(cases, verdicts, idx):
        status, clause, q = v[2], v[3], v[4]
        lens = sorted(d - b for b, d, f in calls[i]["dgms"][0] if f)
        ctx.count(1, key=json.dumps(calls[i]) + embs[i].name, nontrivial=len(set(lens)) >= 2)
        if status == "ok":
            ctx.ok_trace()
            if clause == "error-outcome":
                ctx.extra["error_outcomes_confirmed"] = ctx.extra.get("error_outcomes_confirmed", 0) + 1
            ctx.sample({"call_ticks": {k: calls[i][k] for k in ("keepinf", "hasvi", "vi", "normalize", "islist")}, "first_diagram": calls[i]["dgms"][0][:8], "n_diagrams": len(calls[i]["dgms"]),
                        "embedding": embs[i].name, "outcome": "raised" if c["raised"] else "values", "verdict": "ok"}, cap=4)
        else:
            ctx.failure({"clause": clause, "diagram": q}, {"kind": "entropy", "call": calls[i], "emb": embs[i].name})


def run(ctx):
    quick = ctx.tier == "quick"
    ctx.rule = RULE
    ctx.assumptions += ["absolute values decided on dyadic (Kraft-complete) and equal-length families, bounds and invariance laws elsewhere; ln constants from the generated Tables.tla"]
    r = tlc.run_tlc("PersistentEntropy", workers=8, constants=dict(MaxDgms=2 if quick else 3), invariants=["OutcomeAsStated", "CoefBounds"], heap="4g")
    ctx.model("PersistentEntropy pipeline", r)
    # R: spec -> code
    tmpd = _mktempdir(prefix="entdump_")
    dump, pool = os.path.join(tmpd, "dump.json"), os.path.join(tmpd, "pool.json")
    ctx.liveness("PersistentEntropy", dict(MaxDgms=2), ["Termination", "InputUntouched"])
    r = tlc.run_tlc("PersistentEntropy", workers=1, env={"DUMP_FILE": dump, "POOL_FILE": pool}, init="DumpInit", nxt="Next", constants=dict(MaxDgms=2), invariants=["PoolDump"], heap="2g")
    if r["error"] or not os.path.exists(dump) or not os.path.exists(pool):
        ctx.machinery_errors.append("PersistentEntropy dump failed:\n" + r["out"][-1500:])
        return
    P = json.load(open(pool)); D = json.load(open(dump))
    calls = []
    for d in D:
        dg = [[[b, (0 if dd == 1000 else dd), 0 if dd == 1000 else 1] for b, dd in P[q - 1]] for q in d["input"]]
        calls.append(dict(dgms=dg, keepinf=int(d["keepinf"]), hasvi=int(d["valinf"] != -1), vi=7, normalize=int(d["normalize"]), islist=1 if len(dg) > 1 else 0))
    ctx.extra["replayed_spec_cases"] = len(calls)
    embs_all = EXACT_EMBS[:4] + DEC_EMBS[:3] + EXACT_EMBS[4:6]   # incl. scales 2^-50 (total length far below 1e-10) and 2^30
    validate(ctx, calls, [embs_all[i % len(embs_all)] for i in range(len(calls))], "R")
    n = 1200 if quick else 12000
    calls = [gen_call(ctx.rng) for _ in range(n)]
    validate(ctx, calls, [embs_all[i % len(embs_all)] for i in range(n)], "V")


def replay(ctx, rec):
    c = rec["case"]
    e = next(x for x in EXACT_EMBS + DEC_EMBS if x.name == c["emb"])
    validate(ctx, [c["call"]], [e], "replay", nproc=1)
