"""C09 -- landscape arithmetic is pointwise and leaves operands untouched."""
from fractions import Fraction
from math import gcd
from .. import tlc, lazy
from ..common import EXACT_EMBS, unfl, run_driver_parallel

RULE = ("M: LandscapeAlgebra.tla -- environment machine over a pool of base landscapes (coincident breakpoints, different depth counts, "
        "half-integer values); every sequence of <=3 add/sub/neg/scalar operations with results fed back; the slope merge as coded against "
        "pointwise linear combination at every tick and depth (PointwiseInv) and OperandsUnchanged as an action property. R/V: seeded "
        "programs of 3..9 operations over exact and grid landscapes built from diagrams or from arbitrary zero-ended critical points / values "
        "(coincident abscissae, sign changes, unequal depth counts), scalars incl. negatives and fractions, snap_pl / lc_approx / "
        "average_approx onto common grids, and mismatched operands that must be rejected; after every operation EVERY live object is re-read "
        "(digest) and new objects are decoded exactly; TraceAlgebra.tla compares results with operands as functions at every depth and at "
        "every tick of the union of breakpoints. Non-trivial = program with a binary operation on operands of different breakpoint sets.")
SCAL = [(2, 1), (-1, 1), (1, 2), (3, 1), (-3, 2), (1, 4)]
DIVS = [(2, 1), (4, 1), (-2, 1)]


def lcm(a, b):
    return a * b // gcd(a, b)


def rand_bars(rng, lo, hi, n):
    out = []
    while len(out) < n:
        b, d = rng.randrange(lo, hi, 2), rng.randrange(lo, hi + 1, 2)
        if b < d:
            out.append([b, d])
    return out


def rand_cp(rng, lo, hi):
    """zero-ended critical points, strictly increasing integer abscissae, dyadic slopes, sign changes"""
    depths = []
    for _ in range(rng.randint(1, 3)):
        x = rng.randint(lo, lo + 3)
        pts = [[x, 0]]
        for _ in range(rng.randint(1, 5)):
            x += rng.choice([1, 2, 2, 4])
            pts.append([x, rng.randint(-3, 4)])
        x += rng.choice([1, 2, 4])
        pts.append([x, 0])
        depths.append(pts)
    return depths


def gen_program(rng):
    """instructions in ticks; floats are produced by to_job()"""
    prog, nxt = [], [1]
    def new():
        nxt[0] += 1
        return nxt[0] - 1
    exact, approx = [], []
    # every object of a program lives in one homological degree H (results must stay there); diagrams of the lower degrees are fillers
    H = rng.choice([0, 0, 1, 2])
    fill = [[[0, 2 * (j + 1)]] for j in range(H)]
    for _ in range(rng.randint(2, 3)):
        n = new()
        if rng.random() < 0.5:
            prog.append(dict(op="new_exact_dgm", dgms=fill + [rand_bars(rng, 0, 12, rng.randint(1, 4))], hom=H, res=[n], lazy=int(rng.random() < 0.4)))
        else:
            prog.append(dict(op="new_exact_cp", cps=rand_cp(rng, 0, 10), hom=H, res=[n]))
        exact.append(n)
    s = rng.choice([1, 2, 4]); nn = rng.randint(4, 9); a = rng.choice([0, 2, -2])
    for _ in range(rng.randint(2, 3)):
        n = new()
        if rng.random() < 0.5:
            prog.append(dict(op="new_approx_dgm", dgms=fill + [[[a + rng.randint(0, (nn - 1) * s - 1), 0] for _ in range(rng.randint(1, 3))]], hom=H, grid=[a, s, nn], res=[n], lazy=int(rng.random() < 0.4)))
            for p in prog[-1]["dgms"][H]:
                p[1] = rng.randint(p[0] + 1, a + (nn - 1) * s)
            prog[-1]["dgms"][H].append([a, a + (nn - 1) * s])   # a bar spanning the grid: the sampled landscape is never the "empty" sentinel
        else:
            rows = [[0] + [rng.randint(-2, 5) for _ in range(nn - 2)] + [0] for _ in range(rng.randint(1, 3))]
            prog.append(dict(op="new_approx_vals", vals=rows, hom=H, grid=[a, s, nn], res=[n], int=int(rng.random() < 0.5)))
        approx.append(n)
    # an approx on another grid (for snap / lc) and odd ones for rejections
    og = new(); s2 = rng.choice([1, 2]); n2 = rng.randint(3, 7); a2 = a + rng.choice([-2, 0, 1, 3])
    if (a2, s2, n2) == (a, s, nn):
        n2 += 1
    prog.append(dict(op="new_approx_vals", vals=[[0] + [rng.randint(0, 4) for _ in range(n2 - 2)] + [0]], hom=H, grid=[a2, s2, n2], res=[og], int=int(rng.random() < 0.5)))
    oh = new()
    prog.append(dict(op="new_exact_cp", cps=rand_cp(rng, 0, 6), hom=H + 1, res=[oh]))
    ah = new()     # a grid landscape of ANOTHER degree on the SAME grid as the others: only the degree check can reject it
    prog.append(dict(op="new_approx_vals", vals=[[0] + [rng.randint(0, 4) for _ in range(nn - 2)] + [0]], hom=H + 1, grid=[a, s, nn], res=[ah], int=0))
    fr = 0
    for _ in range(rng.randint(3, 9)):
        kind = rng.choice(["e", "e", "a", "a", "snap", "lc", "rej", "extreme"])
        if kind == "extreme":
            # scalars of extreme magnitude (|c| far below 1e-8, or huge): the result is decoded in the unit 'c' (an exact power of two) and
            # must be the operand itself; it is not used as an operand afterwards
            pool = rng.choice([exact, approx])
            k = rng.choice([27, 30, 40, 60])
            sign = rng.choice([1, 1, -1])
            if rng.random() < 0.5:
                prog.append(dict(op="div", args=[rng.choice(pool)], c=[sign, 2 ** k], unit=[sign * 2 ** k, 1], res=[new()]))     # P / (+-2^-k)
            else:
                op = rng.choice(["mul", "rmul"])
                if rng.random() < 0.5:
                    prog.append(dict(op=op, args=[rng.choice(pool)], c=[sign, 2 ** k], unit=[sign, 2 ** k], res=[new()]))       # P * (+-2^-k)
                else:
                    prog.append(dict(op=op, args=[rng.choice(pool)], c=[sign * 2 ** k, 1], unit=[sign * 2 ** k, 1], res=[new()]))   # P * (+-2^k)
        elif kind in ("e", "a"):
            pool = exact if kind == "e" else approx
            op = rng.choice(["add", "sub", "add", "sub", "neg", "mul", "rmul", "div"])
            n = new()
            if op in ("add", "sub"):
                prog.append(dict(op=op, args=[rng.choice(pool), rng.choice(pool)], res=[n]))
            elif op == "neg":
                prog.append(dict(op=op, args=[rng.choice(pool)], res=[n]))
            else:
                c = rng.choice(DIVS if op == "div" else SCAL)
                if c[1] > 1 or op == "div":
                    if fr >= 2:
                        c = (2, 1) if op != "div" else None
                    fr += 1
                if c is None:
                    prog.append(dict(op="neg", args=[rng.choice(pool)], res=[n]))
                else:
                    prog.append(dict(op=op, args=[rng.choice(pool)], c=list(c), res=[n]))
            pool.append(n)
        elif kind == "snap":
            srcs = [rng.choice(approx), og] if rng.random() < 0.7 else [rng.choice(approx), rng.choice(approx)]
            lo = min(a, a2) - rng.choice([0, 1]); step = rng.choice([1, 2]); hi = max(a + (nn - 1) * s, a2 + (n2 - 1) * s2)
            cnt = (hi - lo + step - 1) // step + 1
            names = [new() for _ in srcs]
            prog.append(dict(op="snap", args=srcs, grid=[lo, step, cnt], res=names))
        elif kind == "lc":
            k = rng.choice([2, 2, 3, 4])
            srcs = [rng.choice(approx + [og]) for _ in range(k)]
            lo = min(a, a2); step = rng.choice([1, 2]); hi = max(a + (nn - 1) * s, a2 + (n2 - 1) * s2)
            cnt = (hi - lo + step - 1) // step + 1
            n = new()
            if rng.random() < 0.5 and k in (2, 4):
                prog.append(dict(op="avg", args=srcs, coeffs=[[1, k]] * k, grid=[lo, step, cnt], res=[n]))
            else:
                prog.append(dict(op="lc", args=srcs, coeffs=[list(rng.choice([(1, 1), (-1, 1), (2, 1), (1, 2)])) for _ in range(k)], grid=[lo, step, cnt], res=[n]))
        else:
            if rng.random() < 0.35:
                prog.append(dict(op="add", args=[rng.choice(exact), oh], res=[new()], mustraise=1))
            elif rng.random() < 0.5:
                prog.append(dict(op=rng.choice(["add", "sub"]), args=rng.sample([rng.choice(approx), ah], 2), res=[new()], mustraise=1))
            else:
                prog.append(dict(op=rng.choice(["add", "sub"]), args=[rng.choice(approx), og], res=[new()], mustraise=1))
    return prog


def to_job(prog, e):
    out = []
    for ins in prog:
        j = {k: v for k, v in ins.items() if k in ("op", "args", "res", "hom", "lazy")}
        if "dgms" in ins:
            j["dgms"] = [[[e.f(b), e.f(d)] for b, d in dg] for dg in ins["dgms"]]
        if "cps" in ins:
            j["cps"] = [[[e.f(x), float(e.s * y)] for x, y in d] for d in ins["cps"]]
        if "vals" in ins:
            j["vals"] = [[float(e.s * y) for y in row] for row in ins["vals"]]
            if ins.get("int") and all(float(v).is_integer() and abs(v) < 2 ** 40 for row in j["vals"] for v in row):
                j["vals"] = [[int(v) for v in row] for row in j["vals"]]   # integer-dtype values array (as in literal landscapes)
                j["int"] = 1
        if "grid" in ins:
            a, s, n = ins["grid"]
            j["start"], j["stop"], j["n"] = e.f(a), e.f(a + (n - 1) * s), n
        if "c" in ins:
            j["c"] = ins["c"][0] / ins["c"][1]
        if "coeffs" in ins:
            j["coeffs"] = [c[0] / c[1] for c in ins["coeffs"]]
        out.append(j)
    return {"prog": out}


def to_case(prog, evs, e):
    """decode all new objects with a common q; returns (case, ok)"""
    fr_y = []
    decoded = []
    lattice = 1
    for ins, ev in zip(prog, evs):
        news = []
        unit = Fraction(ins["unit"][0], ins["unit"][1]) if ins.get("unit") else Fraction(1)
        for name, c in ev.get("news", {}).items():
            try:
                if c["kind"] == 1:
                    depths = []
                    for d in c["cps"]:
                        pts = []
                        for x, y in d:
                            fx = (Fraction(unfl(x)) - e.t) / e.s
                            fy = Fraction(unfl(y)) / e.s / unit
                            if fx.denominator != 1:
                                raise ValueError
                            pts.append([int(fx), fy]); fr_y.append(fy)
                        depths.append(pts)
                    news.append([int(name), 1, c["hom"], 0, 0, 0, depths])
                else:
                    a = (Fraction(unfl(c["start"])) - e.t) / e.s
                    b = (Fraction(unfl(c["stop"])) - e.t) / e.s
                    n = c["n"]
                    st = (b - a) / (n - 1)
                    if a.denominator != 1 or st.denominator != 1 or st <= 0:
                        raise ValueError
                    rows = [[Fraction(unfl(y)) / e.s / unit for y in row] for row in c["vals"]]
                    if any(len(r) != n for r in rows):
                        raise ValueError
                    fr_y += [y for r in rows for y in r]
                    news.append([int(name), 2, c["hom"], int(a), int(st), n, rows])
            except (ValueError, OverflowError, ZeroDivisionError):
                lattice = 0
                news.append([int(name), 1, 0, 0, 0, 0, []])
        decoded.append(news)
    q = 1
    for y in fr_y:
        q = lcm(q, y.denominator)
        if q > 64:
            return None
    def sc(y):
        return int(y * q)
    events = []
    for ins, ev, news in zip(prog, evs, decoded):
        if ev["raised"] == 2:
            break   # everything after the first unexpected failure is not executed meaningfully; the failure itself is judged
        nn = []
        for o in news:
            if o[1] == 1:
                cont = [[[x, sc(y)] for x, y in d] for d in o[6]]
            else:
                cont = [[sc(y) for y in row] for row in o[6]]
            nn.append(o[:6] + [cont])
        op = "new" if ins["op"].startswith("new_") else ins["op"]
        events.append(dict(op=op, args=ins.get("args", []), c=([1, 1] if ins.get("unit") else ins.get("c", [1, 1])), coeffs=ins.get("coeffs", []), res=ins.get("res", []),
                           raised=ev["raised"], mustraise=ins.get("mustraise", 0), digs=ev["digs"], news=nn, gridspec=ins.get("grid", [0, 0, 0]),
                           arityok=int("arity" not in ev)))
    return dict(q=q, lattice=lattice, events=events)


def validate(ctx, progs, embs, label, nproc=12):
    jobs = [to_job(p, e) for p, e in zip(progs, embs)]
    results, _ = run_driver_parallel("algebra.py", jobs, nproc=nproc)
    cases, idx = [], []
    for i, (p, r, e) in enumerate(zip(progs, results, embs)):
        if "events" not in r:
            ctx.failure({"clause": "no-result", "detail": {k: r.get(k) for k in ("raised", "msg")}}, {"kind": "algebra", "prog": p, "emb": e.name})
            continue
        c = to_case(p, r["events"], e)
        if c is None:
            ctx.extra["skipped_denominator_too_large"] = ctx.extra.get("skipped_denominator_too_large", 0) + 1
            continue
        cases.append(c); idx.append(i)
    verdicts, st = tlc.run_batch("TraceAlgebra", cases, nproc=nproc, heap="3g")
    ctx.extra.setdefault("trace_validation_runs", []).append(dict(label=label, cases=len(cases), tlc_states=st["states"], wall_s=round(st["wall"], 1)))
    for c, v, i in zip(cases, verdicts, idx):
        status, at, clause = v[2], v[3], v[4]
        p = progs[i]
        ctx.count(1, key=str(p) + embs[i].name, nontrivial=any(ins["op"] in ("add", "sub", "lc", "avg") and len(set(ins["args"])) > 1 for ins in p))
        if status == "ok":
            ctx.ok_trace()
            ctx.sample({"program_ticks": [{k: v for k, v in ins.items()} for ins in p][:12], "embedding": embs[i].name, "q": c["q"], "verdict": "ok"}, cap=2)
        else:
            ctx.failure({"clause": clause, "op": (p[at - 1]["op"] if at else None)}, {"kind": "algebra", "prog": p, "emb": embs[i].name, "event": at})


def run(ctx):
    quick = ctx.tier == "quick"
    ctx.rule = RULE + lazy.RULE
    ctx.assumptions += ["critical points zero at both ends with integer abscissae and dyadic slopes (outside that class the underlying function is discontinuous at its ends)",
                        "scalars are dyadic rationals so that every result is exactly decodable; operand identity is a 31-bit digest of the object's full content"]
    r = tlc.run_tlc("LandscapeAlgebra", workers=16, constants=dict(MaxOps=2 if quick else 3), invariants=["PointwiseInv", "WellFormed"], properties=["OperandsUnchanged"], heap="8g")
    ctx.model("LandscapeAlgebra MaxOps=%d" % (2 if quick else 3), r)
    n = 500 if quick else 5000
    progs = [gen_program(ctx.rng) for _ in range(n)]
    embs = [EXACT_EMBS[i % 4] for i in range(n)]
    validate(ctx, progs, embs, "V")

    noisy_family(ctx, 400 if quick else 6000)
    lazy.run(ctx, "C09", quick)

def gen_noisy(rng):
    def bars(n):
        out = []
        while len(out) < n:
            b = rng.randint(0, 60) / 10.0 + rng.choice([0.0, 0.0, 0.05, 0.03, 1e-9])
            out.append([b, b + rng.randint(2, 60) / 10.0 + rng.choice([0.0, 0.0, 0.01])])
        return out
    a, b = rng.choice([([1, 1], [-1, 1]), ([1, 1], [-1, 1]), ([1, 1], [1, 1]), ([2, 1], [-1, 2])])
    return dict(A=bars(rng.randint(1, 5)), B=bars(rng.randint(1, 5)), a=a, b=b)


def noisy_case(job, r):
    """TraceCombF case: fixed-point records of the observed points, samples with interpolation certificates (exact rational arithmetic)"""
    from ..fix import fix
    import math
    objs, fin = {}, 1
    for nm in ("P", "Q", "R"):
        depths = []
        for d in r.get(nm, []):
            pts = []
            for x, y in d:
                fx, fy = unfl(x), unfl(y)
                if any(v != v or abs(v) == float("inf") for v in (fx, fy)):
                    fin = 0; fx, fy = 0.0, 0.0
                pts.append((Fraction(fx), Fraction(fy)))
            depths.append(pts)
        objs[nm] = depths
    case = dict(a=job["a"], b=job["b"], raised=int("raised_in_op" in r), finite=fin, samples=[],
                P=[[[fix(x), fix(y)] for x, y in d] for d in objs["P"]], Q=[[[fix(x), fix(y)] for x, y in d] for d in objs["Q"]],
                R=[[[fix(x), fix(y)] for x, y in d] for d in objs["R"]])
    if case["raised"] or not fin:
        return case
    def ev(o, k, x):
        if k >= len(o) or not o[k] or x <= o[k][0][0] or x >= o[k][-1][0]:
            if k < len(o) and o[k] and (x == o[k][0][0] or x == o[k][-1][0]):
                return 0, (o[k][0][1] if x == o[k][0][0] else o[k][-1][1]) * 0      # landscapes vanish at the ends of their support
            return 0, Fraction(0)
        pts = o[k]
        for i in range(len(pts) - 1):
            (x0, y0), (x1, y1) = pts[i], pts[i + 1]
            if x0 <= x <= x1 and x1 > x0:
                return i + 1, y0 + (y1 - y0) * (x - x0) / (x1 - x0)
        return 0, Fraction(0)
    K = max(len(objs[n]) for n in objs)
    for k in range(K):
        xs = sorted({x for n in objs if k < len(objs[n]) for x, _ in objs[n][k]})
        xs = xs + [(u + v) / 2 for u, v in zip(xs[:-1], xs[1:])]
        for x in xs:
            row = [k + 1, fix(x)]
            for n in ("P", "Q", "R"):
                i, v = ev(objs[n], k, x)
                row += [i, fix(v)]
            case["samples"].append(row)
    return case


def noisy_family(ctx, n):
    rng = ctx.rng
    jobs = [gen_noisy(rng) for _ in range(n)]
    results, _ = run_driver_parallel("fcomb.py", jobs, nproc=12)
    cases, idx = [], []
    for i, (j, r) in enumerate(zip(jobs, results)):
        if "P" not in r:
            ctx.failure({"clause": "no-result", "detail": str(r)[:200]}, {"kind": "fcomb", "job": j}); continue
        cases.append(noisy_case(j, r)); idx.append(i)
    verdicts, st = tlc.run_batch("TraceCombF", cases, nproc=12, heap="3g")
    ctx.extra.setdefault("trace_validation_runs", []).append(dict(label="V-decimal-coordinates", cases=len(cases), tlc_states=st["states"], wall_s=round(st["wall"], 1)))
    for c, v, i in zip(cases, verdicts, idx):
        ctx.count(1, key=("fcomb", str(jobs[i])), nontrivial=True)
        if v[2] == "ok":
            ctx.ok_trace()
        elif v[2] == "machinery":
            ctx.machinery_errors.append("TraceCombF: %s on %s" % (v[3], jobs[i]))
        else:
            ctx.failure({"clause": v[3], "op": "a*P + b*Q with decimal coordinates", "coefficients": [jobs[i]["a"], jobs[i]["b"]]}, {"kind": "fcomb", "job": jobs[i]})


def replay(ctx, rec):
    if rec["case"].get("kind") == "fcomb":
        from ..common import run_driver
        j = rec["case"]["job"]
        r = run_driver("fcomb.py", {"jobs": [j]})["results"][0]
        v, _ = tlc.run_batch("TraceCombF", [noisy_case(j, r)], nproc=1)
        if v[0][2] == "ok":
            ctx.ok_trace()
        else:
            ctx.failure({"clause": v[0][3]}, rec["case"])
        return
    if rec["case"].get("kind") == "lazy":
        return lazy.replay(ctx, rec)
    c = rec["case"]
    e = next(x for x in EXACT_EMBS if x.name == c["emb"])
    validate(ctx, [c["prog"]], [e], "replay", nproc=1)
