"""C03 -- exact landscape = k-th largest tent everywhere.  Spec: SweepCore / LandscapeSweep / TraceSweep / DumpSweep."""
import json, os, tempfile
from .. import tlc
from ..common import mktempdir as _mktempdir
from ..common import Emb, EXACT_EMBS, DEC_EMBS, unfl, decode_lattice, run_driver_parallel

RULE = ("M: every multiset of <=MaxBars bars with even endpoints in 0..MaxT (intended design and as-coded model). "
        "R: TLC dumps that input set with expected events/results; each is run through PersLandscapeExact in random row "
        "order under exact and inexact embeddings. V: seeded random diagrams (<=12 bars; nested/touching/equal-birth/"
        "equal-death/repeated bars, several homological degrees, trailing infinite bar). TraceSweep.tla decides each case: "
        "property layer = equality with KthLargestDef at every integer tick (all breakpoints are integer ticks); "
        "algorithm layer = hook events and result vs SweepCore!Step. Non-trivial = at least 2 bars that overlap or touch; "
        "distinct = canonical (sorted bars, degree, embedding).")


# (bars sit on even ticks, so that the critical points are whole ticks: above 2^24 resp. 2048 the containers hold even integers only)
FLOAT_EMBS = [Emb(1, 2 ** 24, True, "k + 2^24 (float32 container)"), Emb(1, 2048, True, "k + 2048 (float16 container)")]


def _mk_job(bars, emb, rng, extra_degrees=True, trailing_inf=False):
    """bars in ticks -> float job + case skeleton."""
    order = list(bars)
    rng.shuffle(order)
    dgm = [[emb.f(b), emb.f(d)] for b, d in order]
    if trailing_inf:
        dgm.append([emb.f(order[0][0]), float("inf")])
    dgms, hom = [dgm], 0
    tick_dgms = [[list(x) for x in order]]
    if extra_degrees:
        other = [[emb.f(0), emb.f(2)], [emb.f(2), emb.f(6)]]
        pos = rng.randrange(6)
        if pos == 3:    # an EMPTY diagram (a degree without classes) below the requested degree
            dgms, tick_dgms, hom = [other, [], dgm], [[[0, 2], [2, 6]], [], tick_dgms[0]], 2
        elif pos == 4:
            dgms, tick_dgms, hom = [[], dgm, other], [[], tick_dgms[0], [[0, 2], [2, 6]]], 1
        elif pos == 1:
            dgms, tick_dgms, hom = [other, dgm], [[[0, 2], [2, 6]], tick_dgms[0]], 1
        elif pos == 2:
            dgms, tick_dgms, hom = [dgm, other], [tick_dgms[0], [[0, 2], [2, 6]]], 0
        elif pos == 5 and not trailing_inf:
            hom = rng.choice([1, 2])       # a degree the caller gave no diagram for (a lone diagram, degree 1 or 2 requested)
    return {"dgms": dgms, "hom_deg": hom}, {"dgms": tick_dgms, "hom_deg": hom}


def _case_from_result(skel, res, emb):
    """Build the TLC case from the driver's observation."""
    c = dict(skel)
    if skel["hom_deg"] >= len(skel["dgms"]) and not res.get("noresult") and not res.get("machinery"):
        c.update(returned=int("cps" in res), cps=[], q=1, lattice=1, events=[], hook=0, hookfired=-1)
        return c
    c["returned"] = 1
    if res.get("raised") or res.get("noresult") or "cps" not in res:
        return None
    xs, ys, shape = [], [], []
    for depth in res["cps"]:
        shape.append(len(depth))
        for x, y in depth:
            xs.append(unfl(x))
            ys.append(unfl(y))
    dec = decode_lattice(emb, xs, ys)
    if dec is None:
        c["cps"], c["q"], c["lattice"] = [], 1, 0
    else:
        q, xi, yi = dec
        it = iter(zip(xi, yi))
        c["cps"] = [[list(next(it)) for _ in range(n)] for n in shape]
        c["q"] = q
        c["lattice"] = 1
    if res.get("events") is None:
        c["events"], c["hookfired"], c["hook"] = [], -1, 0
    else:
        evs, hookfired, bad = [], 0, False
        for e in res["events"]:
            if e[0] == "end":
                evs.append(["end", e[1], e[2], 0])
                hookfired = max(hookfired, e[3])
            else:
                b, d = emb.ticks(unfl(e[1])), emb.ticks(unfl(e[2]))
                if b is None or d is None:
                    bad = True
                    break
                evs.append([e[0], b, d, e[3]])
        c["events"] = [] if bad else evs
        c["hook"] = 0 if bad else 1
        c["hookfired"] = hookfired
    return c


def _validate(ctx, jobs, skels, embs, label, nproc=12):
    # every third job asks for an integer dtype by turns (applied by the driver when the embedded coordinates are integers in range)
    for i, j in enumerate(jobs):
        if i % 3 == 2 and "dtype" not in j:
            j["dtype"] = ["uint8", "int16", "uint16", "int64", "int8", "int32"][(i // 3) % 6]
    results, _ = run_driver_parallel("landscape_exact.py", jobs, nproc=nproc)
    cases, idx = [], []
    for i, (sk, r, e) in enumerate(zip(skels, results, embs)):
        if r.get("mutated"):
            ctx.failure({"clause": "input-mutated"}, {"job": jobs[i]})
            continue
        c = _case_from_result(sk, r, e)
        if c is None:
            ctx.failure({"clause": "no-result", "detail": {k: r.get(k) for k in ("raised", "msg", "noresult")}},
                        {"job": jobs[i], "emb": e.name})
            continue
        cases.append(c)
        idx.append(i)
    verdicts, st = tlc.run_batch("TraceSweep", cases, nproc=nproc)
    ctx.extra.setdefault("trace_validation_runs", []).append(dict(label=label, cases=len(cases), tlc_states=st["states"], wall_s=round(st["wall"], 1)))
    for c, v, i in zip(cases, verdicts, idx):
        _, _, status, clause, fired, algEv, algRes = v
        bars = sorted(map(tuple, c["dgms"][c["hom_deg"]])) if c["hom_deg"] < len(c["dgms"]) else []
        nontriv = len(bars) >= 2 and any(a[1] >= b[0] and b[1] >= a[0] for ai, a in enumerate(bars) for b in bars[ai + 1:])
        ctx.count(1, key=(tuple(bars), c["hom_deg"], embs[i].name), nontrivial=nontriv)
        if fired:
            ctx.extra["shortcut_fired_inputs"] = ctx.extra.get("shortcut_fired_inputs", 0) + 1
        if status == "ok":
            ctx.ok_trace()
            ctx.sample({"bars_ticks": bars, "embedding": embs[i].name, "verdict": "ok", "events": c["events"] if c["hook"] else "nohook"}, cap=3)
        elif status == "divergence":
            ctx.divergence({"clause": clause, "bars": bars, "emb": embs[i].name})
        else:
            hook_agrees = c["hookfired"] in (-1, 1) if fired else True
            info = {"clause": clause if isinstance(clause, str) else clause[0], "detail": clause,
                    "spec_fired": bool(fired) and hook_agrees, "matches_as_coded_model": algRes == "ok"}
            kind = ctx.failure(info, {"kind": "landscape_exact", "job": jobs[i], "case": c, "emb": embs[i].name})
            if kind == "known":
                ctx.sample({"bars_ticks": bars, "verdict": "KNOWN-FINDING (repeated-bar shortcut)", "detail": str(clause)}, cap=5)


def gen_random_bars(rng, nmax, tmax):
    n = rng.randint(1, nmax)
    style = rng.random()
    pool = list(range(0, tmax + 1, 2))
    if style < 0.4:  # few distinct coordinates -> many ties
        pool = rng.sample(pool, min(len(pool), rng.randint(3, 5)))
    bars = []
    while len(bars) < n:
        b, d = rng.choice(pool), rng.choice(pool)
        if b < d:
            bars.append((b, d))
            if rng.random() < 0.08 and len(bars) < n:
                bars.append((b, d))  # repeated bar
    return bars


def run(ctx):
    quick = ctx.tier == "quick"
    ctx.rule = RULE
    ctx.assumptions += ["bar endpoints on a lattice of even ticks mapped to floats by the listed embeddings",
                        "property-layer failures whose input class is 'repeated-bar shortcut fired in the as-coded model and the output equals the as-coded model' are the recorded known finding"]
    # ---- M
    mcs = [(8, 3), (8, 4)] if quick else [(8, 4), (10, 4), (8, 5)]
    for MaxT, MaxBars in mcs:
        for ws in (False, True):
            inv = (["Correct", "Residual"] if not ws else ["CorrectOrFired"]) + ["OrderedInv", "SortedInv"]
            r = tlc.run_tlc("LandscapeSweep", workers=16, heap="6g", coverage=False,
                            constants=dict(MaxT=MaxT, MaxBars=MaxBars, WithShortcut=ws), invariants=inv)
            ctx.model("LandscapeSweep MaxT=%d MaxBars=%d WithShortcut=%s %s" % (MaxT, MaxBars, ws, inv), r)
    ctx.liveness("LandscapeSweep", dict(MaxT=8, MaxBars=3 if quick else 4, WithShortcut=True), ["Termination", "DepthsAppendOnly"])
    # spec-level reproduction of the known finding: the as-coded model violates plain Correct
    r = tlc.run_tlc("LandscapeSweep", workers=4, constants=dict(MaxT=6, MaxBars=3, WithShortcut=True), invariants=["Correct"])
    ctx.model("LandscapeSweep as coded, plain Correct (expected to fail: known finding)", r, expect_violation="Correct")
    # ---- R
    dump = os.path.join(_mktempdir(prefix="c03dump_"), "dump.json")
    MaxT, MaxBars = (8, 3) if quick else (8, 4)
    r = tlc.run_tlc("DumpSweep", workers=1, env={"DUMP_FILE": dump}, constants=dict(MaxT=MaxT, MaxBars=MaxBars), heap="4g")
    if r["error"] or not os.path.exists(dump):
        ctx.machinery_errors.append("DumpSweep failed:\n" + r["out"][-2000:])
        return
    dumped = json.load(open(dump))
    os.remove(dump)
    ctx.extra["replayed_spec_cases"] = len(dumped)
    embs_R = [EXACT_EMBS[0], EXACT_EMBS[1], DEC_EMBS[0]] if quick else EXACT_EMBS + DEC_EMBS[:3]
    jobs, skels, embs = [], [], []
    for ci, c in enumerate(dumped):
        bars = [tuple(b) for b in c["bars"]]
        for e in ([embs_R[ci % len(embs_R)]] if quick else embs_R):
            j, s = _mk_job(bars, e, ctx.rng, extra_degrees=False)
            jobs.append(j); skels.append(s); embs.append(e)
    _validate(ctx, jobs, skels, embs, "R")
    # ---- V
    nV = 1500 if quick else 12000
    jobs, skels, embs = [], [], []
    allembs = EXACT_EMBS + DEC_EMBS
    for i in range(nV):
        bars = gen_random_bars(ctx.rng, 7 if i % 3 else 12, 24 if i % 2 else 40)
        e = allembs[i % len(allembs)]
        j, s = _mk_job(bars, e, ctx.rng, extra_degrees=True, trailing_inf=(i % 7 == 0))
        if i % 25 == 24:
            # single / half precision containers at an offset where the integers are representable in them but the half sums are not
            e = FLOAT_EMBS[(i // 25) % 2]
            j, s = _mk_job(bars, e, ctx.rng, extra_degrees=True, trailing_inf=(i % 7 == 0))
            j["dtype"] = ["float32", "float16"][(i // 25) % 2]
        jobs.append(j); skels.append(s); embs.append(e)
    _validate(ctx, jobs, skels, embs, "V")


def replay(ctx, rec):
    case = rec["case"]
    emb = next(e for e in EXACT_EMBS + DEC_EMBS + FLOAT_EMBS if e.name == case["emb"])
    job = case["job"]
    sk = {"dgms": case["case"]["dgms"], "hom_deg": case["case"]["hom_deg"]}
    _validate(ctx, [job], [sk], [emb], "replay", nproc=1)
