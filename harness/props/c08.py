"""C08 -- grid landscapes stay within half a step of the true landscape."""
from .. import tlc, lazy
from ..common import EXACT_EMBS, DEC_EMBS, unfl, run_driver_parallel

RULE = ("M: GridLandscape.tla -- compute_landscape as a machine (SnapAll, one AddRamp per bar, SortColumns, Assemble) for every multiset "
        "of <=MaxBars bars with arbitrary off-grid integer endpoints on grids N x S; invariants HalfStep, ExactOnGrid, SnapWithinHalf, "
        "AssembleIsKth. R/V: seeded diagrams (off-grid endpoints, exact mid-point ties, many overlapping bars, several degrees, infinite bars, "
        "grids wider than the diagram, num_steps 2..60; integer-valued diagrams also as integer-dtype arrays, incl. on grids with fractional nodes) through PersLandscapeApprox, vectorize(PersLandscapeExact), "
        "PersistenceLandscaper.fit_transform (flattened or not) and death_vector; TraceGrid.tla decides HalfStep / ExactOnGrid / vectorize = "
        "true landscape / transformer = approx values / death vector sorted with the same multiset; algorithm layer = AlgVals. "
        "Non-trivial = >=2 bars, some endpoint off the grid; distinct = (bars, grid, embedding).")
INFT = 100000000


def gen_case(rng, quick, force_big=False):
    n = rng.choice([2, 3, 4, 5, 7, 9, 12, 17, 30, 60]) if not quick else rng.choice([2, 3, 4, 5, 7, 9, 12, 20])
    big = force_big or rng.random() < (0.001 if quick else 0.004)
    if big:      # a few grids beyond a thousand nodes (block-wise or chunked implementations of the snapping show only there)
        n = 1100 if quick else rng.choice([1100, 1500, 2100])
    s = rng.choice([1, 2, 3, 4, 6, 8])
    even = rng.random() < 0.5
    if even and s % 2:
        s *= 2
    a = rng.choice([0, 0, 2, -4, 10])
    # mult4: every bar endpoint a multiple of 4 ticks while the grid step is not -- under the embedding k/4-3 the diagram is integer-valued
    # (and is then handed over as an INTEGER-dtype array) on a grid with fractional nodes
    mult4 = rng.random() < 0.3
    if mult4:
        a = rng.choice([0, 4, -4])
    top = (n - 1) * s
    nb = rng.randint(1, 6 if rng.random() < 0.8 else 12) if not big else rng.randint(1, 3)
    lo, hi = (0, top) if rng.random() < 0.6 else (min(top, s), max(min(top, s), top - s))  # grid strictly wider than the diagram
    bars = []
    tries = 0
    while len(bars) < nb and tries < 200:
        tries += 1
        b, d = rng.randint(lo, hi), rng.randint(lo, hi)
        if even:
            b, d = b - b % 2, d - d % 2
        if rng.random() < 0.3:   # exact mid-point ties and on-grid endpoints
            b = (b // s) * s + (s // 2 if s % 2 == 0 and rng.random() < 0.5 else 0)
        if mult4:
            b, d = b - b % 4, d - d % 4
        if b < d and d <= top and b >= 0:
            bars.append([a + b, a + d, 1])
    if not bars:
        bars = [[a, a + top, 1]]
    return dict(n=n, s=s, a=a, bars=bars, even=even and a % 2 == 0 and all(b % 2 == 0 and d % 2 == 0 for b, d, _ in bars))


def build_jobs(ctx, gcs, embs):
    rng = ctx.rng
    jobs, skels = [], []
    for gc, e in zip(gcs, embs):
        bars = list(gc["bars"])
        rng.shuffle(bars)
        with_inf = rng.random() < 0.15
        used = bars + ([[bars[0][0], 0, 0]] if with_inf else [])
        other = [[gc["a"], gc["a"] + gc["s"], 1]]
        pos = rng.randrange(3)
        dg, hom = ([used], 0) if pos == 0 else (([other, used], 1) if pos == 1 else ([used, other], 0))
        fl_dgms = [[[e.f(b), e.f(d) if f else float("inf")] for b, d, f in d_] for d_ in dg]
        explicit = not (min(b for b, _, _ in bars) == gc["a"] and max(d for _, d, _ in bars) == gc["a"] + (gc["n"] - 1) * gc["s"] and rng.random() < 0.5)
        vec = gc["even"] and not with_inf and rng.random() < 0.7
        tr = rng.choice([None, 0, 1]) if not with_inf else None  # the transformer's fit learns stop=inf from infinite bars (outside C08's domain)
        dv = hom == 0 or pos == 2
        # which bounds the TRANSFORMER is given: both / none (as the landscape) or only one of them, the other being learned by fit -- possible
        # when the learned bound coincides with the grid (smallest birth = start, resp. largest death = stop)
        minb_ok = min(b for b, _, _ in bars) == gc["a"]
        maxd_ok = max(d for _, d, _ in bars) == gc["a"] + (gc["n"] - 1) * gc["s"]
        trb = "both" if explicit else "none"
        opts = [trb] + (["stop"] * 2 if minb_ok else []) + (["start"] * 2 if maxd_ok else [])
        trb = rng.choice(opts)
        jobs.append(dict(dgms=fl_dgms, hom_deg=hom, n=gc["n"], start=e.f(gc["a"]), stop=e.f(gc["a"] + (gc["n"] - 1) * gc["s"]),
                         explicit=explicit, vec=vec, tr=tr, dv=bool(dv), trb=trb, intdtype=int(rng.random() < 0.6), reconfigure=int(rng.random() < 0.2)))
        skels.append(dict(dgms=dg, hom_deg=hom, a=gc["a"], n=gc["n"], s=gc["s"], exactemb=int(e.exact)))
    return jobs, skels


def to_case(sk, r, e):
    c = dict(sk)
    ok = True
    def dec_rows(m):
        nonlocal ok
        out = []
        for row in m:
            rr = []
            for x in row:
                t = e.ticks(unfl(x), 1, shift=False)
                if t is None or abs(t) > 10 ** 8:
                    ok = False
                    t = 0
                rr.append(t)
            out.append(rr)
        return out
    c["values"] = dec_rows(r["values"])
    c["hasvec"], c["vvalues"] = (1, dec_rows(r["vvalues"])) if "vvalues" in r else (0, [])
    if "tvalues" in r:
        tv = r["tvalues"]
        flat = int(bool(tv) and not isinstance(tv[0], list))
        c["hastr"], c["flat"] = 1, flat
        c["tvalues"] = dec_rows([tv])[0] if flat else dec_rows(tv)
        if not tv:
            c["flat"] = 1
    else:
        c["hastr"], c["flat"], c["tvalues"] = 0, 0, []
    if "dvec" in r:
        dv = []
        for x in r["dvec"]:
            v = unfl(x)
            if v == float("inf"):
                dv.append(INFT)
            else:
                t = e.ticks(v, 1)
                if t is None:
                    ok = False; t = 0
                dv.append(t)
        c["hasdv"], c["dvec"] = 1, dv
    else:
        c["hasdv"], c["dvec"] = 0, []
    c["lattice"] = int(ok)
    return c


def validate(ctx, gcs, embs, label, nproc=12):
    jobs, skels = build_jobs(ctx, gcs, embs)
    results, _ = run_driver_parallel("landscape_grid.py", jobs, nproc=nproc)
    cases, idx = [], []
    for i, (sk, r, e) in enumerate(zip(skels, results, embs)):
        if "values" not in r:
            ctx.failure({"clause": "no-result", "detail": {k: r.get(k) for k in ("raised", "msg", "noresult")}}, {"kind": "grid", "gc": gcs[i], "emb": e.name, "job": jobs[i]})
            continue
        cases.append(to_case(sk, r, e)); idx.append(i)
    verdicts, st = tlc.run_batch("TraceGrid", cases, nproc=nproc)
    ctx.extra.setdefault("trace_validation_runs", []).append(dict(label=label, cases=len(cases), tlc_states=st["states"], wall_s=round(st["wall"], 1)))
    for c, v, i in zip(cases, verdicts, idx):
        status, clause = v[2], v[3]
        gc = gcs[i]
        off = any((b - gc["a"]) % gc["s"] or (d - gc["a"]) % gc["s"] for b, d, _ in gc["bars"])
        ctx.count(1, key=(str(sorted(gc["bars"])), gc["n"], gc["s"], gc["a"], embs[i].name), nontrivial=(len(gc["bars"]) >= 2 and off))
        if status == "ok":
            ctx.ok_trace()
            ctx.sample({"bars_ticks": gc["bars"], "grid": {"start": gc["a"], "n": gc["n"], "step": gc["s"]}, "embedding": embs[i].name,
                        "values_ticks": c["values"][:2], "checked": {"vectorize": c["hasvec"], "transformer": c["hastr"], "death_vector": c["hasdv"]}, "verdict": "ok"}, cap=3)
        elif status == "excluded":
            ctx.extra["excluded_C03_known_finding_inputs"] = ctx.extra.get("excluded_C03_known_finding_inputs", 0) + 1
            ctx.traces_total += 1
        elif status == "divergence":
            ctx.divergence({"clause": clause, "gc": gc, "emb": embs[i].name})
        else:
            ctx.failure({"clause": clause}, {"kind": "grid", "gc": gc, "emb": embs[i].name, "job": jobs[i]})


def run(ctx):
    quick = ctx.tier == "quick"
    ctx.rule = RULE + lazy.RULE
    ctx.assumptions += ["grid covers the diagram; finite bars of positive length; endpoints on a tick lattice under affine embeddings",
                        "vectorize is compared with the true landscape except on inputs where the as-coded exact sweep fires its repeated-bar shortcut (C03 known finding), which are counted as excluded"]
    import concurrent.futures as cf
    cfgs = [dict(N=3, S=2, MaxBars=3), dict(N=4, S=3, MaxBars=2), dict(N=5, S=2, MaxBars=2), dict(N=6, S=4, MaxBars=2), dict(N=4, S=2, MaxBars=3), dict(N=5, S=1, MaxBars=3)]
    if not quick:
        cfgs += [dict(N=6, S=3, MaxBars=2), dict(N=4, S=4, MaxBars=3), dict(N=5, S=2, MaxBars=3), dict(N=7, S=2, MaxBars=2), dict(N=3, S=3, MaxBars=4)]
    def one(c):
        return c, tlc.run_tlc("GridLandscape", workers=4, constants=c, invariants=["HalfStep", "ExactOnGrid", "SnapWithinHalf", "AssembleIsKth"], heap="4g", timeout=7200)
    with cf.ThreadPoolExecutor(4) as ex:
        for c, r in ex.map(one, cfgs):
            ctx.model("GridLandscape %s" % c, r, constants=c)
    ctx.liveness("GridLandscape", dict(N=4, S=2, MaxBars=2 if quick else 3), ["Termination", "InputUntouched"], workers=4, heap="4g")
    from .. import tlaps
    tlaps.attach(ctx, "TentLipschitz", "for ALL integers: endpoints moved by <= s/2 move the tent by <= s/2 at every t; max/min are 1-Lipschitz (unbounded half of HalfStep)")
    embs_all = EXACT_EMBS + DEC_EMBS[:3]
    n = 1500 if quick else 12000
    gcs = [gen_case(ctx.rng, quick) for _ in range(n - 2)] + [gen_case(ctx.rng, quick, force_big=True) for _ in range(2)]
    embs = [embs_all[i % len(embs_all)] for i in range(n)]
    validate(ctx, gcs, embs, "V")

    lazy.run(ctx, "C08", quick)

def replay(ctx, rec):
    if rec["case"].get("kind") == "lazy":
        return lazy.replay(ctx, rec)
    c = rec["case"]
    e = next(x for x in EXACT_EMBS + DEC_EMBS if x.name == c["emb"])
    validate(ctx, [c["gc"]], [e], "replay", nproc=1)
