"""C10 -- landscape p-norms and sup-norm equal the integrals they name."""
from fractions import Fraction
from math import gcd
from .. import tlc, lazy
from ..common import EXACT_EMBS, unfl, run_driver_parallel
from ..fix import fix
from .c09 import rand_bars, rand_cp, lcm

RULE = ("M: LandscapeNorms.tla -- exact rational segment integrals of |f|^p: additivity under splitting at every interior tick, agreement "
        "of the one-signed and sign-crossing branches on their boundary, trapezoid rule, symmetry, for all segments within the constants; "
        "LandscapeStability.tla -- sup|lambda_k(X)-lambda_k(Y)| <= bottleneck on the definitions for all pairs of <=2 bars. "
        "R/V: exact and grid landscapes from diagrams, differences P-Q and linear combinations produced through the real operators "
        "(sign changes, nearly flat segments), arbitrary zero-ended critical points, perfect-square ordinates for p in {1.5,2.5,3.5}; "
        "p_norm(p) for p = 1..6 and sup_norm are recorded; TraceNorms.tla recomputes the integrals from the OBSERVED critical points in "
        "fixed point (1e-16) and requires norm^p = sum of integrals to 1e-9, finiteness, sup = max |y|; stability law with both sides "
        "observed from the code. Sessions over two SHARED landscape objects P, Q (exact, or grid on one grid): norms of P and Q before and after "
        "P-Q, Q-P, P-P, c*P / P*c, P+Q were built from them in a random order (each must equal the integral of the content observed at the "
        "start), and the consequences the property names evaluated by TLC on the recorded values: zero for P-P, ||-f|| = ||f||, "
        "||cP|| = |c| ||P||, triangle inequality for P-Q and P+Q, for p = 1..6 and the sup norm. Non-trivial = an object with a sign-crossing segment; distinct = (object, embedding).")
PS = [1, 2, 3, 4, 5, 6]
HALF = [1.5, 2.5, 3.5]
LAW_REAL_PS = [1.5, 2.5]        # the laws need no oracle: real p takes part in the sessions for every kind of landscape


def sq_cp(rng):
    depths = []
    for _ in range(rng.randint(1, 2)):
        x = rng.randint(0, 3)
        pts = [[x, 0]]
        for _ in range(rng.randint(1, 5)):
            x += rng.choice([1, 2, 3])
            r = rng.randint(0, 4)
            pts.append([x, rng.choice([-1, 1]) * r * r])
        pts.append([x + rng.choice([1, 2]), 0])
        depths.append(pts)
    return depths


def gen_make(rng):
    k = rng.choice(["dgm", "sub", "sub", "lin", "cp", "cp", "sqcp", "adgm", "avals", "asub", "sqavals"])
    if k == "dgm":
        # lazy: built with compute=False, so that a norm is the FIRST query on the object ('first': which one)
        return dict(t="dgm", bars=rand_bars(rng, 0, 14, rng.randint(1, 4)), lazy=int(rng.random() < 0.5), first=rng.choice(["p", "sup"]))
    if k in ("sub", "lin"):
        a = dict(t="dgm", bars=rand_bars(rng, 0, 14, rng.randint(1, 4)))
        if rng.random() < 0.35:
            # two diagrams sharing their dominant bars and differing only underneath: the top depths of P - Q cancel exactly
            top = [[0, 14]] + ([[2, 12]] if rng.random() < 0.5 else [])
            a = dict(t="dgm", bars=top + rand_bars(rng, 2, 12, rng.randint(1, 2)))
            b = dict(t="dgm", bars=top + rand_bars(rng, 2, 12, rng.randint(1, 2)))
        elif rng.random() < 0.2:
            # Q = P plus later bars, to the right of everything in P: the knots of P's depth functions are a proper prefix of Q's
            b = dict(t="dgm", bars=[list(x) for x in a["bars"]] + rand_bars(rng, 16, 26, rng.randint(1, 2)))
            if rng.random() < 0.5:
                a, b = b, a
        else:
            b = dict(t="dgm", bars=rand_bars(rng, 0, 14, rng.randint(1, 4))) if rng.random() < 0.8 else dict(t="cp", cps=rand_cp(rng, 0, 8))
        if k == "sub":
            return dict(t="sub", a=a, b=b)
        return dict(t="lin", a=a, b=b, ca=rng.choice([1.0, 2.0, -1.0, 0.5]), cb=rng.choice([-1.0, -2.0, 1.0, -0.5]))
    if k == "cp":
        if rng.random() < 0.35:
            # critical pairs handed over as Python INTEGERS (a legal constructor argument), also large ones: vertical unit 1 or 2000
            return dict(t="cp", cps=rand_cp(rng, 0, 8), int=1, vmul=rng.choice([1, 2000, 2000]))
        return dict(t="cp", cps=rand_cp(rng, 0, 8))
    if k == "sqcp":
        return dict(t="cp", cps=sq_cp(rng), squares=True)
    s = rng.choice([1, 2]); n = rng.randint(4, 9); a0 = rng.choice([0, 2])
    if k == "sqavals":
        # a GRID landscape (numpy values) whose ordinates are +- perfect squares: real p = 1.5, 2.5, 3.5 is decided there, incl. negative and
        # sign-crossing segments held in numpy floats
        sq = lambda: rng.choice([-1, 1]) * rng.randint(0, 4) ** 2
        return dict(t="avals", vals=[[0] + [sq() for _ in range(n - 2)] + [0] for _ in range(rng.randint(1, 2))], grid=[a0, s, n], squares=True)
    if k == "adgm":
        bars = [[a0 + rng.randint(0, (n - 1) * s - 1), 0] for _ in range(rng.randint(1, 3))]
        for p in bars:
            p[1] = rng.randint(p[0] + 1, a0 + (n - 1) * s)
        bars.append([a0, a0 + (n - 1) * s])
        return dict(t="adgm", bars=bars, grid=[a0, s, n], lazy=int(rng.random() < 0.5), first=rng.choice(["p", "sup"]))
    # int: the values array has an INTEGER dtype (vertical unit 1, independent of the embedding of the abscissae, so the grid step is
    # not an integer under the fractional embeddings)
    isint = int(rng.random() < 0.4)
    vmul = rng.choice([1, 1, 2000]) if isint else 1
    mk = lambda: dict(t="avals", vals=[[0] + [rng.randint(-3, 5) for _ in range(n - 2)] + [0] for _ in range(rng.randint(1, 2))], grid=[a0, s, n], int=isint, vmul=vmul)
    if k == "avals":
        return mk()
    return dict(t="sub", a=mk(), b=mk())


def to_float_make(m, e):
    o = dict(t=m["t"])
    if "bars" in m:
        o["bars"] = [[e.f(b), e.f(d)] for b, d in m["bars"]]
    if "cps" in m:
        o["cps"] = [[[e.f(x), int(y) * m.get("vmul", 1)] for x, y in d] for d in m["cps"]] if m.get("int") else [[[e.f(x), float(e.s * y)] for x, y in d] for d in m["cps"]]
    if "vals" in m:
        o["vals"] = [[int(y) * m.get("vmul", 1) for y in row] for row in m["vals"]] if m.get("int") else [[float(e.s * y) for y in row] for row in m["vals"]]
    for kk in ("int", "lazy", "first"):
        if m.get(kk):
            o[kk] = m[kk]
    if "grid" in m:
        a, s, n = m["grid"]
        o.update(start=e.f(a), stop=e.f(a + (n - 1) * s), n=n)
    for kk in ("a", "b"):
        if kk in m:
            o[kk] = to_float_make(m[kk], e)
    for kk in ("ca", "cb"):
        if kk in m:
            o[kk] = m[kk]
    return o


def vscale(m, e):
    """vertical unit of the object's values: 1 for integer-dtype value arrays, the embedding's scale otherwise"""
    if m.get("int"):
        return Fraction(m.get("vmul", 1))
    if m.get("t") == "sub" and m["a"].get("int"):
        return Fraction(m["a"].get("vmul", 1))
    return e.s


def decode_obj(c, e, vs=None):
    vs = e.s if vs is None else vs
    ys = []
    if c["kind"] == 1:
        depths = []
        for d in c["cps"]:
            pts = []
            for x, y in d:
                fx = (Fraction(unfl(x)) - e.t) / e.s
                fy = Fraction(unfl(y)) / vs
                if fx.denominator != 1:
                    return None
                pts.append([int(fx), fy]); ys.append(fy)
            depths.append(pts)
        obj = [1, 1, c["hom"], 0, 0, 0, depths]
    else:
        a = (Fraction(unfl(c["start"])) - e.t) / e.s
        b = (Fraction(unfl(c["stop"])) - e.t) / e.s
        n = c["n"]
        st = (b - a) / (n - 1)
        if a.denominator != 1 or st.denominator != 1 or st <= 0:
            return None
        rows = [[Fraction(unfl(y)) / vs for y in row] for row in c["vals"]]
        ys = [y for r in rows for y in r]
        obj = [1, 2, c["hom"], int(a), int(st), n, rows]
    q = 1
    for y in ys:
        q = lcm(q, y.denominator)
        if q > 64:
            return None
    if obj[1] == 1:
        obj[6] = [[[x, int(y * q)] for x, y in d] for d in obj[6]]
    else:
        obj[6] = [[int(y * q) for y in row] for row in obj[6]]
    return obj, q


def obs_num(x, conv):
    if not isinstance(x, str) or x in ("nan", "inf", "-inf", "complex") or x.startswith("raised"):
        return [0, fix(0)]
    v = unfl(x)
    if v != v or abs(v) == float("inf"):
        return [0, fix(0)]
    return [1, fix(conv(Fraction(v)))]


def has_crossing(obj):
    if obj[1] == 1:
        rows = [[p[1] for p in d] for d in obj[6]]
    else:
        rows = obj[6]
    return any(r[i] * r[i + 1] < 0 for r in rows for i in range(len(r) - 1))


def gen_session(rng):
    """two landscapes of one kind (exact / grid on one grid), a scalar, an order for the derived objects"""
    if rng.random() < 0.5:
        a = dict(t="dgm", bars=rand_bars(rng, 0, 14, rng.randint(1, 4)))
        b = dict(t="dgm", bars=rand_bars(rng, 0, 14, rng.randint(1, 4)))
        if rng.random() < 0.3:
            # Q = P plus later bars to the right of everything in P (the knots of P's depth functions are a proper prefix of Q's), or the other way round
            b = dict(t="dgm", bars=[list(x) for x in a["bars"]] + rand_bars(rng, 16, 26, rng.randint(1, 2)))
            if rng.random() < 0.5:
                a, b = b, a
    else:
        s = rng.choice([1, 2]); n = rng.randint(4, 9); a0 = rng.choice([0, 2])
        def g():
            if rng.random() < 0.5:
                return dict(t="avals", vals=[[0] + [rng.randint(-3, 5) for _ in range(n - 2)] + [0] for _ in range(rng.randint(1, 3))], grid=[a0, s, n])
            bars = [[a0 + rng.randint(0, (n - 1) * s - 1), 0] for _ in range(rng.randint(1, 3))]
            for p in bars:
                p[1] = rng.randint(p[0] + 1, a0 + (n - 1) * s)
            return dict(t="adgm", bars=bars + [[a0, a0 + (n - 1) * s]], grid=[a0, s, n])
        a, b = g(), g()
    order = ["D", "E", "Z", "H", "S"]
    rng.shuffle(order)
    return dict(t="session", a=a, b=b, c=rng.choice([[2, 1], [-3, 1], [1, 2], [-1, 4], [-1, 1]]), order=order, rmul=int(rng.random() < 0.5))


def session_cases(m, e, r):
    """-> list of TraceNorms cases for one recorded session (None: undecodable)"""
    out = []
    decs = {}
    for nm, key in (("P", "cP"), ("Q", "cQ")):
        dec = decode_obj(r[key], e, e.s)
        if dec is None:
            return None
        decs[nm] = dec
    for nm, obs in (("P", "P"), ("P", "P2"), ("Q", "Q"), ("Q", "Q2")):
        obj, q = decs[nm]
        norms = [[p, 1] + obs_num(r["n"][obs].get(str(p)), lambda v, p=p: v ** p / (e.s ** p * e.s)) for p in PS]
        out.append(dict(kind="norms", obj=obj, q=q, lattice=1, norms=norms, sup=obs_num(r["sup"][obs], lambda v: v / e.s), session_part=obs))
    rows = []
    for p in [0] + PS + LAW_REAL_PS:
        get = (lambda nm: r["sup"].get(nm)) if p == 0 else (lambda nm, p=p: r["n"].get(nm, {}).get(str(p)))
        vals = [get(nm) for nm in ("P", "Q", "D", "E", "Z", "H", "S")]
        nums = [obs_num(v, lambda x: x) for v in vals]
        fin = int(all(x[0] == 1 for x in nums))
        fr = [Fraction(unfl(v)) if x[0] == 1 else Fraction(0) for v, x in zip(vals, nums)]
        N = max(fr[0], fr[1])
        if fin and N == 0:
            continue
        rows.append([p if isinstance(p, int) else int(10 * p), fin] + [fix(x / N) if fin else fix(0) for x in fr])      # real p is reported as 10 p (15 = 1.5)
    out.append(dict(kind="laws", c=m["c"], rows=rows))
    return out


DEC = None


def gen_noisy(rng):
    """landscapes with decimal coordinates (tenths, off-lattice offsets): differences and combinations whose critical values carry rounding noise, so
    that segments are flat only up to the last bits"""
    def bars(n):
        out = []
        while len(out) < n:
            b = rng.randint(0, 60) / 10.0 + rng.choice([0.0, 0.0, 0.05, 0.03])
            d = b + rng.randint(2, 60) / 10.0 + rng.choice([0.0, 0.0, 0.01])
            out.append([b, d])
        return out
    a = dict(t="dgm", bars=bars(rng.randint(1, 5)))
    b = dict(t="dgm", bars=bars(rng.randint(1, 4)))
    k = rng.choice(["sub", "sub", "lin", "dgm"])
    if k == "dgm":
        return dict(a, noisy=1)
    if k == "sub":
        return dict(t="sub", a=a, b=b, noisy=1)
    return dict(t="lin", a=a, b=b, ca=rng.choice([1.0, 2.0, 0.5]), cb=rng.choice([-1.0, -0.5, 1.0]), noisy=1)


def noisy_case(r):
    """-> TraceNorms "fnorms" case from the observed content (exact class), zero crossings inserted with exact rational arithmetic"""
    c = r["content"]
    if c["kind"] != 1:
        return None
    depths = []
    for d in c["cps"]:
        pts = [(Fraction(unfl(x)), Fraction(unfl(y))) for x, y in d]
        out = []
        for i, (x, y) in enumerate(pts):
            out.append([fix(x), fix(y), 0])
            if i + 1 < len(pts):
                x1, y1 = pts[i + 1]
                if (y < 0 < y1) or (y1 < 0 < y):
                    z = x + (x1 - x) * abs(y) / (abs(y) + abs(y1))
                    out.append([fix(z), fix(0), 1])
        depths.append(out)
    norms = []
    for p in PS:
        o = obs_num(r["norms"].get(str(p)), lambda v, p=p: v ** p)
        norms.append([p] + o)
    return dict(kind="fnorms", pts=depths, norms=norms, sup=obs_num(r["sup"], lambda v: v))


def validate(ctx, makes, embs, label, nproc=12):
    jobs = []
    for m, e in zip(makes, embs):
        if m.get("noisy"):
            jobs.append(dict(kind="norms", make={k_: v_ for k_, v_ in m.items() if k_ != "noisy"}, ps=PS))
        elif m["t"] == "session":
            jobs.append(dict(kind="session", a=to_float_make(m["a"], e), b=to_float_make(m["b"], e), c=m["c"], order=m["order"], rmul=m["rmul"], ps=PS + LAW_REAL_PS))
        elif m["t"] == "stab":
            jobs.append(dict(kind="stab", X=[[e.f(b), e.f(d)] for b, d in m["X"]], Y=[[e.f(b), e.f(d)] for b, d in m["Y"]]))
        else:
            jobs.append(dict(kind="norms", make=to_float_make(m, e), ps=PS + (HALF if m.get("squares") else [])))
    results, _ = run_driver_parallel("norms.py", jobs, nproc=nproc)
    cases, idx = [], []
    for i, (m, e, r) in enumerate(zip(makes, embs, results)):
        if m["t"] == "stab":
            if "sup" not in r:
                ctx.failure({"clause": "no-result", "detail": r.get("raised")}, {"kind": "norms", "make": m, "emb": e.name}); continue
            cases.append(dict(kind="stab", X=m["X"], Y=m["Y"], sup=obs_num(r["sup"], lambda v: v / e.s), bott=obs_num(r["bott"], lambda v: v / e.s))); idx.append(i)
            continue
        if m.get("noisy"):
            if "content" not in r:
                ctx.failure({"clause": "no-result", "detail": {k: r.get(k) for k in ("raised", "msg")}}, {"kind": "norms", "make": m, "emb": e.name}); continue
            nc = noisy_case(r)
            if nc is not None:
                cases.append(nc); idx.append(i)
            continue
        if m["t"] == "session":
            if "cP" not in r:
                ctx.failure({"clause": "no-result", "detail": {k: r.get(k) for k in ("raised", "msg")}}, {"kind": "norms", "make": m, "emb": e.name}); continue
            sc = session_cases(m, e, r)
            if sc is None:
                ctx.extra["skipped_undecodable"] = ctx.extra.get("skipped_undecodable", 0) + 1
                continue
            for c_ in sc:
                cases.append(c_); idx.append(i)
            continue
        if "content" not in r:
            ctx.failure({"clause": "no-result", "detail": {k: r.get(k) for k in ("raised", "msg")}}, {"kind": "norms", "make": m, "emb": e.name}); continue
        vs = vscale(m, e)
        dec = decode_obj(r["content"], e, vs)
        if dec is None:
            ctx.extra["skipped_undecodable"] = ctx.extra.get("skipped_undecodable", 0) + 1
            continue
        obj, q = dec
        norms = []
        for p in PS:
            norms.append([p, 1] + obs_num(r["norms"].get(str(p)), lambda v, p=p: v ** p / (vs ** p * e.s)))
        if m.get("squares"):
            for p in HALF:
                kk = int(2 * p)
                norms.append([kk, 2] + obs_num(r["norms"].get(str(p)), lambda v, kk=kk: v ** kk / (vs ** kk * e.s ** 2)))
        cases.append(dict(kind="norms", obj=obj, q=q, lattice=1, norms=norms, sup=obs_num(r["sup"], lambda v: v / vs))); idx.append(i)
    verdicts, st = tlc.run_batch("TraceNorms", cases, nproc=nproc, heap="3g")
    ctx.extra.setdefault("trace_validation_runs", []).append(dict(label=label, cases=len(cases), tlc_states=st["states"], wall_s=round(st["wall"], 1)))
    for c, v, i in zip(cases, verdicts, idx):
        status, clause, pp = v[2], v[3], v[4]
        nt = c["kind"] in ("stab", "laws", "fnorms") or has_crossing(c["obj"])
        ctx.count(1, key=str(makes[i]) + embs[i].name, nontrivial=nt)
        if status == "ok":
            ctx.ok_trace()
            ctx.sample({"make_ticks": makes[i], "embedding": embs[i].name, "object": c.get("obj"), "q": c.get("q"), "verdict": "ok"}, cap=3)
        elif status == "excluded":
            ctx.extra["excluded_C03_known_finding_inputs"] = ctx.extra.get("excluded_C03_known_finding_inputs", 0) + 1
            ctx.traces_total += 1
        else:
            if status == "machinery":
                ctx.machinery_errors.append("TraceNorms: %s on %s" % (clause, makes[i])); continue
            info = {"clause": clause, "p_or_k": pp, "crossing": bool(c["kind"] == "norms" and has_crossing(c["obj"]))}
            if c["kind"] == "fnorms":
                info["coordinates"] = "decimal (critical values carry rounding noise)"
            if makes[i]["t"] == "session":
                info["session"] = c.get("session_part", "laws")
            ctx.failure(info, {"kind": "norms", "make": makes[i], "emb": embs[i].name})


def run(ctx):
    quick = ctx.tier == "quick"
    ctx.rule = RULE + lazy.RULE
    ctx.assumptions += ["integer abscissae; ordinates decodable with denominator <= 64; real p only for p in {1.5, 2.5, 3.5} on perfect-square ordinates",
                        "the integral is recomputed from the OBSERVED critical points (C03/C09 decide whether those are the right function)"]
    # (TLC integers are 32-bit: the rational arithmetic of MaxY=4, MaxP>=5 overflows, so the thorough tier trades ordinate range against the exponent)
    for cst in ([dict(MaxY=3, MaxL=3, MaxP=4)] if quick else [dict(MaxY=4, MaxL=4, MaxP=4), dict(MaxY=5, MaxL=4, MaxP=3), dict(MaxY=3, MaxL=3, MaxP=5), dict(MaxY=2, MaxL=3, MaxP=6), dict(MaxY=6, MaxL=5, MaxP=2)]):
        r = tlc.run_tlc("LandscapeNorms", workers=16, constants=cst, invariants=["Additive", "BranchesAgree", "Trapezoid", "Symmetric"], heap="6g")
        ctx.model("LandscapeNorms segment identities %s" % cst, r, constants=cst)
    r = tlc.run_tlc("LandscapeStability", workers=16, constants=dict(MaxT=6, MaxBars=2) if quick else dict(MaxT=8, MaxBars=2), invariants=["Stability"], heap="6g")
    ctx.model("LandscapeStability on the definitions", r)
    rng = ctx.rng
    n = 450 if quick else 7000
    makes = [gen_make(rng) for _ in range(n)]
    for _ in range(n // 5):
        makes.append(dict(t="stab", X=rand_bars(rng, 0, 14, rng.randint(1, 4)), Y=rand_bars(rng, 0, 14, rng.randint(1, 4))))
    for _ in range(n // 4):
        makes.append(gen_session(rng))
    n_lat = len(makes)
    for _ in range(n // 3):
        makes.append(gen_noisy(rng))
    embs = [EXACT_EMBS[i % 6] if i < n_lat else EXACT_EMBS[0] for i in range(len(makes))]      # (the decimal family is not embedded) incl. scales 2^-50 and 2^30 (absolute tolerances in the code show there)
    validate(ctx, makes, embs, "V")

    lazy.run(ctx, "C10", quick)

def replay(ctx, rec):
    if rec["case"].get("kind") == "lazy":
        return lazy.replay(ctx, rec)
    c = rec["case"]
    e = next(x for x in EXACT_EMBS if x.name == c["emb"])
    validate(ctx, [c["make"]], [e], "replay", nproc=1)
