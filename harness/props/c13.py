"""C13 -- Gaussian / uniform kernels are valid, accurate cumulative distribution functions."""
import math
from fractions import Fraction
from .. import tlc
from ..common import unfl, run_driver_parallel
from ..fix import fix
LEVEL = "exploration"

RULE = ("TraceKernel.tla is a law table evaluated by TLC on recorded evaluation grids (17x17 lattice points z = t/8, t in -80..80, i.e. to 10 "
        "standard deviations; means (0,0) and (3,-2); variances (1,1), (1/4,4), (1e-4,1e4), (1e-8,4e-8), (4,1), (1e-12,1e-12)). Per correlation rho and its negative: "
        "range [0,1], monotone in each argument, rectangle mass >= -1e-7, tails 0/1, both marginals = Phi table, value at the mean = "
        "1/4 + asin(rho)/(2 pi) at rho in {sin(pi/12), 1/2, sqrt2/2, sqrt3/2, sin(5pi/12)} (one in every branch of the algorithm incl. "
        ">= 0.925), reflection identity F(h,k;rho)+F(h,-k;-rho) = Phi(h), symmetry in the two arguments, Frechet-Hoeffding bounds; Slepian monotonicity in rho between every pair of consecutive correlations (which sandwiches interior values between neighbours); seams: the two sides of every branch threshold (0.3, 0.75, 0.925, "
        "both signs) agree within 1e-7 + eps/(pi sqrt(1-rho^2)) (bound verified by TLC by squaring); |rho| -> 1 limit; zero covariance: "
        "gaussian, sbvn_cdf, norm_cdf = Phi table / product to 1e-12; uniform = exact box CDF (rational). "
        "Non-trivial = every grid; distinct = (kind, rho, variances, mean). No state space: level exploration.")
RIDGE_TS = list(range(-32, 33))
TS = [-80, -40, -24, -16, -8, -4, -2, -1, 0, 1, 2, 4, 8, 16, 24, 40, 80]
KS_OFF = [-2.5, -1.7, -1.0, -0.5, -0.3, 0.0, 0.4, 0.8, 1.0, 1.9, 2.2, 5.0, 6.0]       # off-lattice decimal multiples of the standard deviation
ANCH = {"sin(pi/12)": (math.sin(math.pi / 12), (1, 24)), "1/2": (0.5, (1, 12)), "sqrt2/2": (math.sqrt(2) / 2, (1, 8)),
        "sqrt3/2": (math.sqrt(3) / 2, (1, 6)), "sin(5pi/12)": (math.sin(5 * math.pi / 12), (5, 24))}
OTHER = [0.1, 0.29, 0.31, 0.6, 0.74, 0.76, 0.9, 0.92, 0.93, 0.95, 0.99, 0.999]
VARS = [(1.0, 1.0), (0.25, 4.0), (0.3, 1.7), (1e-4, 1e4),       # (0.3, 1.7): standard deviations that are not dyadic -- the standardised coordinates of ridge points agree only up to the last bits
 (1e-8, 4e-8), (4.0, 1.0), (1e-12, 1e-12)]
MUS = [(0.0, 0.0), (3.0, -2.0)]


def decode(M):
    out = []
    for row in M:
        r = []
        for x in row:
            v = unfl(x)
            r.append([0, fix(0)] if (v != v or abs(v) == float("inf") or abs(v) > 1e6) else [1, fix(Fraction(v))])
        out.append(r)
    return out


def run(ctx):
    quick = ctx.tier == "quick"
    ctx.rule = RULE
    ctx.level = "exploration"
    ctx.assumptions += ["agreement of the correlated CDF with an independent bivariate reference at arbitrary interior (h,k,rho) is NOT computed (TLA+ cannot "
                        "integrate a 2-D normal density); it is constrained through marginals, anchors, the reflection identity, cross-algorithm seams and limits",
                        "Phi table from the generated Tables.tla (60-digit decimal), cross-checked by TLC ASSUMEs"]
    r = tlc.run_tlc("TestTables", init="Init", nxt="Next")
    ctx.model("Tables.tla constant relations (ASSUME)", r)
    rng = ctx.rng
    jobs, meta = [], []
    def bvn(rho, mu, v, intpts=False):
        return dict(kind="bvn", ts=TS, mu=list(mu), vx=v[0], vy=v[1], rho=rho, intpts=intpts)
    rhos = [(n, r0, a) for n, (r0, a) in ANCH.items()] + [(str(r0), r0, (0, 0)) for r0 in (OTHER if not quick else OTHER[::2] + [0.93])]
    for name, rho, anc in rhos:
        for vi, v in enumerate(VARS if not quick else VARS[:5]):
            mu = MUS[(vi + len(name)) % 2] if min(v) >= 1e-4 else MUS[0]   # a non-zero mean with a tiny sd would put x - mu off the lattice by cancellation
            meta.append(("grid", name, anc, mu, v, len(jobs)))
            jobs += [bvn(rho, mu, v), bvn(-rho, mu, v)]
    # the same grids with INTEGER-dtype evaluation points (standard deviation 8: the 1/8-sd lattice falls on the integers)
    for name, rho, anc in rhos:
        mu = MUS[len(name) % 2]
        meta.append(("grid", name + " (integer-dtype points)", anc, mu, (64.0, 64.0), len(jobs)))
        jobs += [bvn(rho, mu, (64.0, 64.0), True), bvn(-rho, mu, (64.0, 64.0), True)]
    # Slepian pairs: consecutive correlations (both signs) on the same mean and variances
    allr = sorted({r0 for _, r0, _ in rhos} | {-r0 for _, r0, _ in rhos} | {0.0})
    v0 = VARS[1]
    slep_at = len(jobs)
    for r0 in allr:
        jobs.append(bvn(r0, MUS[1], v0) if r0 != 0.0 else dict(kind="product", ts=TS, mu=list(MUS[1]), vx=v0[0], vy=v0[1]))
    for q in range(len(allr) - 1):
        meta.append(("slepian", (allr[q], allr[q + 1]), None, MUS[1], v0, slep_at + q))
    eps = 1e-6
    for r0, frac in ((0.3, (3, 10)), (0.75, (3, 4)), (0.925, (37, 40))):
        for sgn in (1, -1):
            v = VARS[rng.randrange(len(VARS))]
            meta.append(("seam", sgn * r0, frac, MUS[0], v, len(jobs)))
            jobs += [bvn(sgn * (r0 - eps), MUS[0], v), bvn(sgn * (r0 + eps), MUS[0], v)]
    meta.append(("limit", 1 - 1e-6, None, MUS[0], VARS[0], len(jobs)))
    jobs.append(bvn(1 - 1e-6, MUS[0], VARS[0]))
    for v in VARS:
        for mu in (MUS if min(v) >= 1e-4 else MUS[:1]):
            meta.append(("product", 0.0, None, mu, v, len(jobs)))
            jobs.append(dict(kind="product", ts=TS, mu=list(mu), vx=v[0], vy=v[1]))
    # a mean nine orders of magnitude above the standard deviation, chosen so that every lattice point mu + (t/8) sd and the standardised
    # coordinate (x - mu) / sd are EXACT in binary64 (sd = 3 * 2^-15 and 3 * 2^-14, means multiples of 1/4): any loss is the code's
    big_mu, big_v = (9437184.5, -3145728.25), (9.0 * 2.0 ** -30, 9.0 * 2.0 ** -28)
    meta.append(("product", 0.0, None, big_mu, big_v, len(jobs)))
    jobs.append(dict(kind="product", ts=TS, mu=list(big_mu), vx=big_v[0], vy=big_v[1]))
    # off-lattice points, decimal means up to 1e11 standard deviations away from the origin
    for mu, v in (((1.0e7, -2.5e6), (1e-8, 4e-8)), ((3.0e5, 8.0e6), (1e-10, 1e-9)), ((-6.0e8, 4.0e8), (1e-4, 2.5e-5)), ((0.3, -1.7), (0.3, 1.7)), ((-3.5, 7.25), (1e-4, 1e3))):
        meta.append(("productx", 0.0, None, mu, v, len(jobs)))
        jobs.append(dict(kind="productx", ks=KS_OFF, mu=list(mu), vx=v[0], vy=v[1]))
    meta.append(("product", 0.0, None, MUS[1], (64.0, 64.0), len(jobs)))
    jobs.append(dict(kind="product", ts=TS, mu=list(MUS[1]), vx=64.0, vy=64.0, intpts=True))
    # ridge scans of strongly (and moderately) correlated kernels with decimal means and non-dyadic standard deviations
    for r0 in (0.5, 0.8, 0.93, 0.95, 0.99, 0.995):
        for sgn in (1, -1):
            for v, mu in (((0.3, 1.7), (0.3, 0.2)), ((0.01, 0.04), (-1.3, 2.7)), ((2.0, 0.7), (10.1, -4.3))):
                for zs in (1.0, 0.3, 0.7):      # (steps of 1/8, 0.0375 and 0.0875 standard deviations: the last two are not dyadic)
                    meta.append(("ridge", sgn * r0, (sgn, zs), mu, v, len(jobs)))
                    jobs.append(dict(kind="ridge", ts=RIDGE_TS, mu=list(mu), vx=v[0], vy=v[1], rho=sgn * r0, sgn=sgn, zscale=zs))
    # far tails: both coordinates up to 48 standard deviations out, in opposite tails for positive and in the same tail for negative correlation
    for r0 in (0.93, 0.95, 0.99):
        for rho, sgn in ((r0, -1), (-r0, 1)):
            meta.append(("ridge", rho, (sgn, 12.0), (0.3, 0.2), (0.01, 0.04), len(jobs)))
            jobs.append(dict(kind="ridge", ts=RIDGE_TS, mu=[0.3, 0.2], vx=0.01, vy=0.04, rho=rho, sgn=sgn, zscale=12.0))
    upts = []
    for _ in range(200 if quick else 2000):
        w, h = 2 * rng.randint(1, 6), 2 * rng.randint(1, 6)          # half ticks, even so that centre +- w/2 is a whole half tick
        mx, my = rng.randint(-10, 10), rng.randint(-10, 10)
        x, y = mx + rng.randint(-w, w), my + rng.randint(-h, h)
        upts.append([x, y, mx, my, w, h])
    sc = rng.choice([1.0, 0.5, 0.25])
    meta.append(("uniform", sc, None, None, None, len(jobs)))
    jobs.append(dict(kind="uniform", pts=[[sc * a for a in p] for p in upts]))
    results, _ = run_driver_parallel("kernels.py", jobs, nproc=12)
    cases, cm = [], []
    for m in meta:
        kind, a, b, mu, v, at = m
        try:
            if kind == "grid":
                cases.append(dict(kind="grid", ts=TS, VP=decode(results[at]["V"]), VM=decode(results[at + 1]["V"]), anchor=list(b)))
            elif kind == "seam":
                rm = abs(a) + eps
                bound = eps / (math.pi * math.sqrt(1 - rm * rm)) * 1.02
                cases.append(dict(kind="seam", ts=TS, VA=decode(results[at]["V"]), VB=decode(results[at + 1]["V"]), r0=[b[0], b[1]], bound=fix(Fraction(bound))))
            elif kind == "slepian":
                g = lambda rr: decode(rr["V"] if "V" in rr else rr["VG"])
                cases.append(dict(kind="slepian", ts=TS, VA=g(results[at]), VB=g(results[at + 1])))
            elif kind == "ridge":
                R = []
                for x in results[at]["R"]:
                    vv = unfl(x)
                    R.append([0, fix(0)] if (vv != vv or abs(vv) == float("inf") or abs(vv) > 1e6) else [1, fix(Fraction(vv))])
                cases.append(dict(kind="ridge", ts=RIDGE_TS, R=R, sgn=b[0], frechet=int(b[1] == 1.0)))
            elif kind == "limit":
                cases.append(dict(kind="limit", ts=TS, V=decode(results[at]["V"])))
            elif kind == "productx":
                r_ = results[at]
                cases.append(dict(kind="productx", VG=decode(r_["VG"]), VS=decode(r_["VS"]), NX=decode([r_["NX"]])[0], NY=decode([r_["NY"]])[0]))
            elif kind == "product":
                r_ = results[at]
                cases.append(dict(kind="product", ts=TS, VG=decode(r_["VG"]), VS=decode(r_["VS"]), N1=decode([r_["N1"]])[0]))
            else:
                us = decode([results[at]["U"]])[0]
                cases.append(dict(kind="uniform", pts=[p + [u] for p, u in zip(upts, us)]))
            cm.append(m)
        except KeyError:
            ctx.failure({"clause": "no-result", "detail": str(results[at])[:200]}, {"kind": "kernel", "meta": str(m[:5])})
    verdicts, st = tlc.run_batch("TraceKernel", cases, nproc=12, heap="3g")
    ctx.extra.setdefault("trace_validation_runs", []).append(dict(label="V", cases=len(cases), tlc_states=st["states"], wall_s=round(st["wall"], 1)))
    for c, v, m in zip(cases, verdicts, cm):
        status, clause = v[2], v[3]
        ctx.count(len(TS) ** 2 * (2 if m[0] in ("grid", "seam") else 1), key=str(m[:5]), nontrivial=True)
        if status == "ok":
            ctx.ok_trace()
            ctx.sample({"kind": m[0], "rho_or_param": m[1], "mean": m[3], "variances": m[4], "grid_eighths": TS, "verdict": "ok"}, cap=5)
        elif status == "machinery":
            ctx.machinery_errors.append("TraceKernel: %s on %s" % (clause, m[:5]))
        else:
            nm = m[1].replace(" (integer-dtype points)", "") if isinstance(m[1], str) else m[1]
            rho = nm if isinstance(nm, float) else (max(abs(nm[0]), abs(nm[1])) if isinstance(nm, tuple) else (ANCH.get(nm, (None,))[0] if m[0] == "grid" else None))
            if m[0] == "grid" and rho is None:
                rho = float(nm)
            ctx.failure({"clause": clause, "kind": m[0], "abs_rho_ge_0.925": bool(rho is not None and abs(rho) >= 0.925)}, {"kind": "kernel", "meta": [str(x) for x in m[:5]], "at": v[4:6]})


def replay(ctx, rec):
    ctx.notes.append("kernel cases are deterministic: re-run ./check C13 to reproduce")
    run(ctx)
