"""C11 -- persistence images are additive, order-free and call-style independent."""
from .. import tlc, imgs
LEVEL = "model_checking"
RULE = ("M: ImageAccumulate.tla -- PersistenceImager.transform as a state machine (empty-argument early return, single / collection dispatch, serial or ANY worker schedule, private copy + skew conversion, one AddPoint per pair, assembly); PartialIsDef, ResultIsDef, EmptyIsZero, OneElementCollectionStaysAList, NonNegativeBounded, ArgUntouched and the lemmas on the definition (Additive, OrderFree, ZeroWeightNothing, SkewFormIrrelevant, CodedMassIsDefMass) for every call within the constants. R: every call TLC enumerated (diagrams and collections on the tick lattice, both input forms, with the expected numerators) replayed on a real imager with the box kernel, serially and through joblib workers; decided exactly by TraceAccumulate.tla with the model's own definitional operators. V: "
        "Per configuration (uniform / isotropic / axis-aligned / correlated Gaussian kernels; persistence^n, linear_ramp and user weights) the "
        "images of X, Y, Z, X+Y, a permutation of X+Y, X plus zero-persistence points, the empty diagram, X with a repeated pair, and X "
        "pre-converted to birth-persistence form (skew=False) are recorded -- each alone, inside collections, and through joblib workers "
        "(n_jobs 1, 2, 4). TraceImage.tla discovers the relations from the diagrams: equal multisets of non-zero-weight birth-persistence "
        "points => equal images (order, call style, worker count, skew form), union => sum, empty or all-zero-weight => all zeros of the "
        "configured shape, non-negative weights => pixels >= 0 and total <= total weight. Tolerance 1e-12.")


def run(ctx):
    quick = ctx.tier == "quick"
    ctx.rule = RULE
    r = tlc.run_tlc("TestTables", init="Init", nxt="Next")
    ctx.model("Tables.tla constant relations (ASSUME)", r)
    r = tlc.run_tlc("ImagePixel", workers=16, constants=dict(MaxC=3, MaxW=2) if quick else dict(MaxC=4, MaxW=3), invariants=["InclusionExclusionIsMass", "Additive", "NonNegativeAtMostOne"], heap="6g")
    ctx.model("ImagePixel: corner inclusion-exclusion of the box CDF = overlap mass, additive over a pixel grid, within [0,1]", r)
    imgs.model_and_replay(ctx, "C11", quick)
    imgs.run(ctx, "C11", 150 if quick else 1500, 4 if quick else 30)
    legacy_persimage(ctx, 60 if quick else 600)


def legacy_persimage(ctx, n):
    """growth beyond the listed properties: the deprecated PersImage class against LegacyPersImage.tla (notes only)"""
    from fractions import Fraction
    from ..common import run_driver_parallel, unfl
    from ..fix import fix
    rng = ctx.rng
    jobs, skels = [], []
    for t in range(n):
        ny = rng.choice([2, 4]); nx = rng.choice([2, 3, 5])
        maxBD = rng.choice([16, 32]); hasspecs = int(rng.random() < 0.5)
        dgms = []
        for _ in range(rng.randint(1, 3)):
            pts = []
            for _ in range(rng.randint(1, 3)):
                b = rng.randrange(0, maxBD, 8); p = rng.randrange(8, maxBD + 1, 8)
                pts.append([b, b + p])
            dgms.append(pts)
        if not hasspecs:   # make the first diagram span the intended range so that the learned specs are the decidable ones
            dgms[0].append([0, maxBD])
        sp = rng.choice([0, 0, maxBD // ny])
        jobs.append(dict(nx=nx, ny=ny, hasspecs=hasspecs, maxBD=float(maxBD), minBD=0.0, sp=float(sp), dgms=[[[float(b), float(d)] for b, d in dg] for dg in dgms]))
        skels.append(dict(nx=nx, ny=ny, hasspecs=hasspecs, maxBD=maxBD, minBD=0, sp=sp, dgms=dgms))
    results, _ = run_driver_parallel("legacy_image.py", jobs, nproc=8)
    cases = []
    for sk, r in zip(skels, results):
        if "imgs" not in r:
            continue
        calls = []
        for dg, im in zip(sk["dgms"], r["imgs"]):
            calls.append([dg, [[fix(Fraction(unfl(x))) for x in row] for row in im["img"]]])
        cases.append(dict(nx=sk["nx"], ny=sk["ny"], hasspecs=sk["hasspecs"], maxBD=sk["maxBD"], minBD=sk["minBD"], sp=sk["sp"], calls=calls))
    if not cases:
        ctx.notes.append("legacy PersImage: no result (class removed or raising); not one of the listed properties")
        return
    verdicts, st = tlc.run_batch("LegacyPersImage", cases, nproc=8)
    agree = sum(1 for v in verdicts if v[2] == "ok")
    ctx.extra["beyond_properties_legacy_PersImage"] = dict(histories=len(cases), agree=agree, calls=sum(len(c["calls"]) for c in cases),
                                                          note="specs are learned from the first transform and then stick (modelled as coded)")
    if agree != len(cases):
        ctx.notes.append("legacy PersImage: %d of %d histories differ from LegacyPersImage.tla (not one of the listed properties; reported as a note)" % (len(cases) - agree, len(cases)))


def replay(ctx, rec):
    imgs.replay(ctx, rec, "C11")
