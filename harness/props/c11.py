"""C11 -- persistence images are additive, order-free and call-style independent."""
from .. import tlc, imgs
LEVEL = "exploration"
RULE = ("Per configuration (uniform / isotropic / axis-aligned / correlated Gaussian kernels; persistence^n, linear_ramp and user weights) the "
        "images of X, Y, Z, X+Y, a permutation of X+Y, X plus zero-persistence points, the empty diagram, X with a repeated pair, and X "
        "pre-converted to birth-persistence form (skew=False) are recorded -- each alone, inside collections, and through joblib workers "
        "(n_jobs 1, 2, 4). TraceImage.tla discovers the relations from the diagrams: equal multisets of non-zero-weight birth-persistence "
        "points => equal images (order, call style, worker count, skew form), union => sum, empty or all-zero-weight => all zeros of the "
        "configured shape, non-negative weights => pixels >= 0 and total <= total weight. Tolerance 1e-12. Level exploration.")


def run(ctx):
    quick = ctx.tier == "quick"
    ctx.rule = RULE
    ctx.level = "exploration"
    r = tlc.run_tlc("TestTables", init="Init", nxt="Next")
    ctx.model("Tables.tla constant relations (ASSUME)", r)
    r = tlc.run_tlc("ImagePixel", workers=16, constants=dict(MaxC=3, MaxW=2) if quick else dict(MaxC=4, MaxW=3), invariants=["InclusionExclusionIsMass", "Additive", "NonNegativeAtMostOne"], heap="6g")
    ctx.model("ImagePixel: corner inclusion-exclusion of the box CDF = overlap mass, additive over a pixel grid, within [0,1]", r)
    imgs.run(ctx, "C11", 150 if quick else 1500, 4 if quick else 30)


def replay(ctx, rec):
    ctx.notes.append("re-run ./check C11 with the same VERIF_SEED to reproduce")
