"""C15 -- sliced Wasserstein is the averaged 1-D transport cost and a pseudo-metric."""
import math
from fractions import Fraction
from .. import tlc, laws
from ..common import EXACT_EMBS, DEC_EMBS, EXTREME_EMBS

RULE = ("M: SlicedWasserstein.tla -- sorted matching attains the 1-D transport minimum over all bijections (all pairs of sequences of "
        "length <=4, thorough 5), a common value on both sides is irrelevant, symmetry. Exact anchor: for every tabulated number of directions M (1..16, 25, 49, 50, 64, 98, 100, 103; cos/sin of (1/2+i/M) pi "
        "tabulated to 1e-16 in Tables.tla) MetricLaws.tla computes SW from the diagrams in fixed point (each diagram augmented with the "
        "diagonal projections ((b+d)/2,(b+d)/2) of the other); required to 1e-6 (the code's direction vectors are float32). Laws for every "
        "M in 1..60 on sessions of related diagrams with coordinates of either sign: finite, >=0, zero on reorderings, symmetry, triangle, "
        "diagonal points ignored, diagonal translation (also into negative coordinates), linear scaling, empty diagrams, SW <= 2*W1 with "
        "both sides observed. Non-trivial = session with multi-point diagrams; evaluations = calls into persim.sliced_wasserstein.")


ANCHOR_MS = [1, 2, 3, 4, 5, 7, 10, 16, 49, 50, 64, 98, 103]      # a subset of Tables!SWMs


def run(ctx):
    quick = ctx.tier == "quick"
    ctx.rule = RULE
    ctx.assumptions += ["absolute values only for M in {1,2}; for other M the laws the property states", "float32 direction vectors limit the anchor to 1e-6 relative"]
    r = tlc.run_tlc("SlicedWasserstein", workers=16, constants=dict(MaxN=4, MaxV=3) if quick else dict(MaxN=5, MaxV=3), invariants=["SortedIsOptimal", "CommonValueIrrelevant", "CostSymmetric"], heap="6g")
    ctx.model("SlicedWasserstein design lemma", r)
    from .. import tlaps
    tlaps.attach(ctx, "SortedExchange", "for ALL integers: uncrossing two matched pairs never increases the 1-D cost; a common translation leaves every pair cost unchanged")
    rng = ctx.rng
    embs = EXACT_EMBS[:4] + DEC_EMBS[:3] + EXACT_EMBS[4:6] + EXTREME_EMBS     # incl. scales 2^-50, 2^30, 2^60 and 2^-100
    specs = []
    for i in range(50 if quick else 500):
        neg = i % 2 == 1
        sess = [laws.rand_dgm(rng, rng.randint(0, 5), 8, neg=neg, diag=0.15) for _ in range(3)]
        M = rng.choice(ANCHOR_MS if i % 3 else [m for m in ANCHOR_MS if m <= 16])
        if M <= 16:     # larger sessions only for few directions (TLC evaluates M sorted 1-D matchings per pair)
            sess.append(rng.sample(sess[0], len(sess[0])))
            if len(sess[0]) >= 2:
                sess.append(laws.repaired(rng, sess[0]))
            t = rng.choice([-20, -9, 5])
            sess.append([[b + t, d + t] for b, d in sess[0]]); sess.append([[b + t, d + t] for b, d in sess[1]])
        specs.append(dict(session=sess, fn="sw", emb=embs[i % len(embs)], M=M, anchor=1, aux=[], zerotol=Fraction(1, 10 ** 9)))
    for i in range(16 if quick else 150):
        sess = laws.make_session(rng, 2, 14 if quick else 50, rng.choice([6, 12, 30]), neg=(i % 2 == 1), with_empty=True)
        specs.append(dict(session=sess, fn="sw", emb=embs[i % len(embs)], M=rng.choice([1, 2, 3, 5, 10, 50, 60]), anchor=0, aux=["W"] if i % 2 == 0 or embs[i % len(embs)] in EXTREME_EMBS else [], zerotol=Fraction(1, 10 ** 9)))
    # the code keeps its direction vectors in float32: every projected coordinate carries a relative error of about 2e-8, so
    # "unchanged" / "zero" / "equal" are granted 1e-6 of the largest coordinate magnitude times the number of points (stated allowance)
    # argument objects: fresh float arrays per call / ONE set of float64 arrays, integer-dtype arrays (where the embedded coordinates are
    # integers) or float32 arrays shared by all calls of the session (a call that writes into its arguments, or that treats
    # an integer container differently, breaks the laws between later calls)
    for i, sp in enumerate(specs):
        sp["edit"] = int(i % 2 == 0)      # shared objects overwritten in place with doubled coordinates, all calls made again
        sp["container"] = laws.pick_container(rng, sp, [None, "array", "int", "float32", "uint8", "int16", "uint16", "int32"])
        if sp["container"] in laws.NARROW:
            sp["edit"] = 0      # (doubling in place could leave the dtype's range)   # (nested lists are outside sliced_wasserstein's documented input type np.array)
    for sp in specs:
        e = sp["emb"]
        off = abs(float(e.t / e.s))
        mx = max([abs(v) + off for d in sp["session"] for p in d for v in p] + [1.0])
        npts = max([len(d) for d in sp["session"]] + [1])
        sp["zerotol"] = Fraction(mx * npts * 2) / 10 ** 6
    laws.run_sessions(ctx, specs, "V")


def replay(ctx, rec):
    laws.replay(ctx, rec)
