"""C06 -- returned matchings certify the reported bottleneck / Wasserstein distance."""
from .. import bott
RULE = ("M: Bottleneck.tla with TrackMatching (Probe returns ANY perfect matching of the threshold graph), invariant CertifiesInv; "
        "Wasserstein.tla Assign returns ANY optimal assignment, invariant CertifiesInv. R/V: matchings returned by the real functions "
        "(several hash seeds) validated by TraceBottleneck/TraceWasserstein: every index exactly once, -1 conventions, each row cost = "
        "the distance's own cost rule for that pair, max/sum of costs = distance, same distance with and without matching. "
        "Non-trivial = both diagrams non-empty and distance > 0.")

def run(ctx):
    ctx.rule = RULE
    bott.run(ctx, "C06")
    try:
        from .. import wass
    except ImportError:
        ctx.notes.append("Wasserstein part of C06 not built yet")
        return
    wass.run(ctx, "C06")

def replay(ctx, rec):
    if rec["case"].get("kind") == "wasserstein":
        from .. import wass
        wass.replay(ctx, rec, "C06")
    else:
        bott.replay(ctx, rec, "C06")
