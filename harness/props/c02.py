"""C02 -- Wasserstein distance equals the definitional min-sum matching cost."""
from .. import wass
RULE = ("M: Wasserstein.tla -- for every table of small integer costs obeying the diagonal inequality, min over perfect matchings of "
        "the augmented matrix (any optimal assignment) = min over partial pairings. R/V: seeded lattice diagrams through "
        "persim.wasserstein under 9+ embeddings; TraceWasserstein.tla verifies the harness' sqrt(Q/2) tables by squaring (Fix limbs, "
        "1e-15), then decides optimality by brute force over all partial pairings (<=3 vs <=3 points) or by an LP-duality certificate "
        "(potentials checked feasible entry by entry, zero duality gap) for up to 30 vs 30 points; warnings iff a point was dropped. "
        "Non-trivial = both diagrams non-empty with an off-diagonal point (optimal matching can mix diagonal and cross pairings).")

def run(ctx):
    ctx.rule = RULE
    ctx.assumptions += ["observed floats converted exactly to tick units (Fractions) then rounded to 1e-16 Fix records",
                        "tolerance 1e-12 (abs+rel) under exact embeddings, 1e-9 under inexact ones"]
    wass.run(ctx, "C02")

def replay(ctx, rec):
    wass.replay(ctx, rec, "C02")
