"""C01 -- bottleneck distance equals the definitional min-max matching cost."""
from .. import bott
RULE = ("M: Bottleneck.tla, every pair of diagrams (multisets of lattice points incl. diagonal/repeated/infinite-death points) within "
        "the stated constants; invariants Optimal (vs BottleneckDef = min over all partial pairings), SearchInv, WarnIffDropped. "
        "R: the diagram set dumped by the spec, paired, run through persim.bottleneck in random row order under 9 float embeddings "
        "and several PYTHONHASHSEEDs. V: seeded random diagrams beyond the model bounds (ties, diagonal points, duplicates, infinite "
        "deaths). TraceBottleneck.tla decides each case: the harness' solver supplies a perfect matching at hopt and a Hall violator at "
        "hopt-1 (costs are integer half ticks), TLC checks both against its own definitional cost matrix (and against brute force when "
        "<=7 points), then requires observed distance = hopt exactly. Non-trivial = both diagrams non-empty and distance > 0.")

def run(ctx):
    ctx.rule = RULE
    ctx.assumptions += ["inputs on a tick lattice under affine embeddings; exact embeddings demand equality, inexact ones 1e-9 relative snapping",
                        "certificates are data: their validity is decided by TLC"]
    bott.run(ctx, "C01")

def replay(ctx, rec):
    bott.replay(ctx, rec, "C01")
