"""C05 -- mGH estimates bracket the true modified Gromov-Hausdorff distance."""
from .. import mgh, tlc

RULE = ("M: MGH.tla -- every ordered pair of connected labelled graphs on <=4 vertices (1936 pairs); lower-bound loop one action per "
        "iteration (LbSound in every state), upper-bound heuristic with nondeterministic permutation and first image (every RNG draw): "
        "UbSound, UbIsRealMap; FeasMGH: greedy assignment feasibility = existence of an injection. R: all those pairs through "
        "persim.gromov_hausdorff. V: seeded random connected graphs (trees, sparse, dense, paths, cycles, stars, cliques, lollipops; "
        "random relabellings), RNG seeds and mapping_sample_size_order in {[0,0],[.5,0],default,[1,1]}. TraceMGH.tla computes shortest "
        "paths of the abstract graph and the exact distance by branch and bound (<=7, thorough <=9 vertices) and requires "
        "lb <= exact <= ub, half-integers, lb=0 for verified isomorphisms; larger graphs: counter-certificate maps only. "
        "Algorithm layer: FindLb transcription and replay of the recorded construct_mapping calls. Non-trivial = a graph with >=3 vertices.")


def run(ctx):
    quick = ctx.tier == "quick"
    ctx.rule = RULE
    ctx.assumptions += ["above the exact-oracle size, soundness of lb rests on Theorems A/B of Oles et al. plus counter-certificate search"]
    mgh.run_models(ctx, quick, "C05")
    if not quick:
        r = tlc.run_tlc("MGH", workers=16, constants=dict(MaxV=5, WithUb=False), invariants=["LbSound", "IsoZero", "AnyCurvatureSound"], heap="12g", timeout=7200)
        ctx.model("MGH MaxV=5 lower bound", r)
    rng = ctx.rng
    # R0: spec -> code on the inner feasibility routine: every triple TLC enumerated, with the declarative answer
    import json, os, tempfile
    from ..common import mktempdir as _mktempdir
    from ..common import run_driver_parallel
    dump = os.path.join(_mktempdir(prefix="feasdump_"), "dump.json")
    r = tlc.run_tlc("FeasMGH", workers=1, env={"DUMP_FILE": dump}, init="DumpInit", nxt="DumpNext", constants=dict(MaxD=3, MaxCnt=3), heap="4g")
    feas_div = 0
    if r["error"] or not os.path.exists(dump):
        ctx.machinery_errors.append("FeasMGH dump failed:\n" + r["out"][-1500:])
    else:
        triples = json.load(open(dump)); os.remove(dump)
        # the routine's contract presumes p <= q (v not longer than u); keep those
        triples = [t for t in triples if sum(t["v"]) <= sum(t["u"])]
        try:
            res, _ = run_driver_parallel("mgh.py", [dict(call="feas", v=t["v"], u=t["u"], d=t["d"]) for t in triples], nproc=8)
            feas_div = sum(1 for t, x in zip(triples, res) if x.get("feasible") is not None and x["feasible"] != t["feasible"])
            ctx.extra["feasibility_triples_replayed"] = len(triples)
            ctx.extra["feasibility_divergences"] = feas_div
            if feas_div:
                ex = next((t for t, x in zip(triples, res) if x.get("feasible") is not None and x["feasible"] != t["feasible"]))
                ctx.divergence({"clause": "check_assignment_feasibility differs from the declarative meaning", "example": ex})
                ctx.extra["algorithm_divergences"] = ctx.extra.get("algorithm_divergences", 0)
        except Exception as e:   # routine renamed / removed: degrade, never an alarm
            ctx.notes.append("feasibility replay unavailable: %r" % (e,))
    items = []
    # R: every pair of connected labelled graphs on <= 4 vertices
    small = mgh.all_connected_graphs(4)
    ctx.extra["replayed_spec_pairs"] = len(small) ** 2
    orders = [None, [0, 0], [1, 1], [0.5, 0]]
    for i, gx in enumerate(small):
        for j, gy in enumerate(small):
            if quick and (i * 7 + j * 3 + ctx.seed) % 3:
                continue
            items.append(mgh.mk_pair_item(gx, gy, mgh.CANON, mgh.CANON, seed=(i * 44 + j) % 17, order=orders[(i + j) % 4], exact=True, owner="C05"))
    mgh.validate(ctx, items, "R", "C05")
    # V: random connected graphs beyond the model's bound, exact oracle
    items = []
    nV, nmax = (350, 7) if quick else (2500, 9)
    for t in range(nV):
        nx, ny = rng.randint(1, nmax), rng.randint(1, nmax)
        if nx + ny > 2 * nmax - 2 and not quick and t % 4:
            ny = rng.randint(1, 6)
        gx = (nx, mgh.rand_connected(rng, nx))
        if t % 9 == 0:   # isomorphic pair: relabelled copy, certificate = the relabelling
            E2, p = mgh.relabel(rng, nx, gx[1])
            gy, iso = (nx, E2), p
        else:
            gy, iso = (ny, mgh.rand_connected(rng, ny)), None
        items.append(mgh.mk_pair_item(gx, gy, rng.choice(mgh.C05_REPRS), rng.choice(mgh.C05_REPRS), seed=rng.randrange(1000), order=orders[t % 4], exact=True, owner="C05", iso=iso))
    mgh.validate(ctx, items, "V-exact", "C05")
    # adaptive: an algorithm-layer divergence (the code no longer follows the model TLC proved sound) buys a much larger
    # exact-oracle campaign on sparse 5..8-vertex graphs, where unsound pruning/feasibility decisions show
    # focused: many sparse pairs are run through the code first; only those whose lower bound was raised ABOVE the trivial
    # bound (i.e. the curvature / assignment machinery decided something) go to the exact oracle.  An algorithm-layer
    # divergence (the code no longer follows the model TLC proved sound) multiplies the campaign.
    boost = 4 if ctx.extra.get("algorithm_divergences") else 1
    items = []
    def focused(gx, gy):
        DXh, DYh = mgh.dist_matrix(*gx), mgh.dist_matrix(*gy)
        dx, dy = max(map(max, DXh)), max(map(max, DYh))
        triv = max(abs(dx - dy), int(gx[0] != gy[0]))
        def mk(res):
            c = mgh.pair_case(gx, gy, res, True)
            return [c] if (c["raised"] or not c["halfint"] or c["lb2"] > triv) else []
        return mk
    for t in range((4000 if quick else 40000) * boost):
        nx, ny = rng.randint(4, 8), rng.randint(4, 8)
        sty = rng.choice(["tree", "sparse", "star", "path", "lollipop"])
        gx, gy = (nx, mgh.rand_connected(rng, nx, sty)), (ny, mgh.rand_connected(rng, ny, rng.choice(["tree", "sparse", "star", "path"])))
        it = mgh.mk_pair_item(gx, gy, rng.choice(mgh.C05_REPRS), rng.choice(mgh.C05_REPRS), seed=rng.randrange(1000), order=orders[t % 4], exact=True, owner="C05")
        it["mk"] = focused(gx, gy)
        items.append(it)
    mgh.validate(ctx, items, "V-focused (lb above the trivial bound)%s" % (" x4 after divergence" if boost > 1 else ""), "C05")
    # isomorphic pairs at sizes beyond the exact oracle: a sparse graph against a relabelled copy of itself.  The relabelling is the
    # certificate (TLC verifies it is an isometry), the true distance is 0, so any positive lower bound is a violation.  Thousands are run
    # through the code; TLC sees every pair with a positive lower bound plus a sample of the rest.
    items = []
    def iso_filter(gx, gy, iso, keep):
        def mk(res):
            c = mgh.pair_case(gx, gy, res, False, iso=iso, algo=False)
            return [c] if (keep or c["raised"] or not c["halfint"] or c["lb2"] > 0) else []
        return mk
    for t in range(4500 if quick else 40000):
        n = rng.randint(9, 14)
        gx = (n, mgh.rand_connected(rng, n, rng.choice(["tree", "tree", "sparse", "lollipop", "star"])))
        E2, p = mgh.relabel(rng, n, gx[1])
        gy = (n, E2)
        it = mgh.mk_pair_item(gx, gy, mgh.CANON, mgh.CANON, seed=rng.randrange(1000), order=[0, 0], exact=False, owner="C05", iso=p)
        it["mk"] = iso_filter(gx, gy, p, t % 60 == 0)
        items.append(it)
    mgh.validate(ctx, items, "V-isomorphic (9..14 vertices, relabelling verified by TLC)", "C05")
    # the all-pairs call form returns the same kind of bracket for every ordered entry of its matrices
    from ..common import run_driver_parallel, unfl
    jobs, gl = [], []
    for t in range(30 if quick else 300):
        # cycles against cliques / stars / paths: pairs whose bracket is often not tight (lower < exact), where a swapped matrix entry shows
        gs = [(lambda n, st: (n, mgh.rand_connected(rng, n, st)))(rng.randint(2, 7), rng.choice(["cycle", "cycle", "clique", "star", "path", "lollipop", "sparse"])) for _ in range(rng.randint(2, 4))]
        # (every second collection as symmetric dense float64 arrays -- what networkx.to_numpy_array gives -- each converted once per pair it is in)
        rep = [mgh.CANON, {"kind": "dense", "dtype": "float64", "sym": True}, {"kind": "list", "sym": True}, {"kind": "dense", "dtype": "float64", "sym": True}][t % 4]
        jobs.append(dict(call="collection", graphs=[dict(n=g[0], edges=g[1], repr=rep) for g in gs], seed=t, order=orders[t % 4]))
        gl.append(gs)
    res, _ = run_driver_parallel("mgh.py", jobs, nproc=8)
    ccases, cmeta = [], []
    for j, gs, r in zip(jobs, gl, res):
        if "lbs" not in r:
            ctx.failure({"clause": "collection-call-raised", "detail": r.get("raised")}, {"kind": "mgh", "job": j}); continue
        for a in range(len(gs)):
            for b in range(len(gs)):
                if a != b:
                    rr = {"lb": r["lbs"][a][b], "ub": r["ubs"][a][b], "warn": r.get("warn", 0)}
                    ccases.append(dict(mgh.pair_case(gs[a], gs[b], rr, True, algo=False), mine="C05")); cmeta.append((j, a, b))
    if ccases:
        vs, st = tlc.run_batch("TraceMGH", ccases, nproc=8, heap="3g")
        ctx.extra.setdefault("trace_validation_runs", []).append(dict(label="V-collection-entries", cases=len(ccases), tlc_states=st["states"], wall_s=round(st["wall"], 1)))
        for c, v, (j, a, b) in zip(ccases, vs, cmeta):
            ctx.count(1, key=("coll", str(c["EX"]), str(c["EY"]), j["seed"]), nontrivial=(c["nX"] >= 3 or c["nY"] >= 3))
            if v[2] in ("ok", "divergence"):
                ctx.ok_trace()
            elif v[2] == "machinery":
                ctx.machinery_errors.append("TraceMGH: %s" % v[3])
            else:
                ctx.failure({"clause": v[3], "entry": [a, b], "form": "collection"}, {"kind": "mghcoll", "job": j, "entry": [a, b]})
    # larger graphs: counter-certificates only
    items = []
    nL, lo, hi = (40, 10, 16) if quick else (300, 10, 40)
    for t in range(nL):
        nx, ny = rng.randint(lo, hi), rng.randint(lo, hi)
        gx, gy = (nx, mgh.rand_connected(rng, nx)), (ny, mgh.rand_connected(rng, ny))
        if t % 5 == 0:
            E2, p = mgh.relabel(rng, nx, gx[1])
            gy, iso = (nx, E2), p
            cm = None
        else:
            iso = None
            DX, DY = mgh.dist_matrix(*gx), mgh.dist_matrix(*gy)
            cm = [mgh.local_search_map(rng, DX, DY), mgh.local_search_map(rng, DY, DX)]
        items.append(mgh.mk_pair_item(gx, gy, rng.choice(mgh.C05_REPRS), rng.choice(mgh.C05_REPRS), seed=rng.randrange(1000), order=orders[t % 4], exact=False, owner="C05", iso=iso, cmaps=cm))
    mgh.validate(ctx, items, "V-certificates", "C05")
    # more than 127 vertices with a small diameter (the distance matrix lives in int8 while counts and sort keys do not fit it)
    mgh.validate(ctx, mgh.many_vertices_items(rng, "C05", quick), "V-many-vertices-small-diameter", "C05", nproc=8)
    # the other dtype boundary: DIAMETERS around 127 / 128 (the distance matrix's smallest sufficient integer type) against K2 and the path on
    # 3 vertices; no exact oracle at this size -- the diameter-difference bound (2*mGH >= diam X - diam Y, in TraceMGH) decides the upper bound
    items = []
    for n in ([127, 128, 129, 130] if quick else [126, 127, 128, 129, 130, 131, 255, 256, 257, 258]):
        gx = (n, mgh.rand_connected(rng, n, "path"))
        for small in ((2, [(1, 2)]), (3, [(1, 2), (2, 3)])):
            items.append(mgh.mk_pair_item(gx, small, rng.choice(mgh.C05_REPRS), mgh.CANON, seed=n, order=[0, 0], exact=False, owner="C05", hook=False))
            items.append(mgh.mk_pair_item(small, gx, mgh.CANON, rng.choice(mgh.C05_REPRS), seed=n + 1, order=[0, 0], exact=False, owner="C05", hook=False))
    mgh.validate(ctx, items, "V-diameter-dtype-boundary", "C05", nproc=8)


def replay(ctx, rec):
    c = rec["case"]
    j = c["job"]
    if c.get("kind") == "mghcoll":
        ctx.notes.append("collection entries: re-run ./check C05 (deterministic for a given VERIF_SEED)")
        return
    g = j["graphs"]
    it = mgh.mk_pair_item((g[0]["n"], [tuple(e) for e in g[0]["edges"]]), (g[1]["n"], [tuple(e) for e in g[1]["edges"]]), g[0]["repr"], g[1]["repr"],
                          j.get("seed", 0), j.get("order"), bool(c.get("exact", 1)), c.get("owner", "C05"), iso=c.get("iso"), cmaps=c.get("cmaps"))
    mgh.validate(ctx, [it], "replay", ctx.pid, nproc=1)
