"""C18 -- transformers: fit+transform == fit_transform, refits forget the past."""
from fractions import Fraction
from .. import tlc
from ..common import Emb, EXACT_EMBS, unfl, run_driver_parallel

RULE = ("M: Transformers.tla -- all histories of fit/transform/fit_transform of length <=4 over 3 data sets x every subset of user-fixed "
        "start/stop, for the intended machine (RefitForgets, FitTransformIsFitThenTransform, TransformKeepsState) and the pre-repair "
        "keep-first fit (refuted in two steps). R/V: seeded random interleavings (3..10 calls over 2..4 data sets, any subset of start/stop "
        "fixed by the user incl. 0, collections of 1..4 diagrams, flatten or not) on real PersistenceLandscaper / PersistenceImager objects; "
        "after every call the public attributes and a digest of every returned array are recorded; TraceTransformers.tla walks each "
        "history with a memo (state, diagram) -> output; a transform must leave the attributes alone on fitted and unfitted estimators alike. Non-trivial = history with >=2 fits on different data; distinct = history.")
NOTFIXED = 1000000
E = [Emb(1, 0, True, "tick=1"), Emb(Fraction(1, 4), 0, True, "tick=1/4"), Emb(Fraction(1, 10), 0, False, "tick=0.1")]


def gen(rng, kind):
    nds = rng.randint(2, 4)
    sets = []
    for _ in range(nds):
        coll = []
        shift = rng.choice([0, 0, 0, 25])        # some data sets lie entirely above the others (no overlap between what successive fits learn)
        for _ in range(rng.randint(1, 5) if kind == "imager" else 2):
            pts = []
            off = 0
            for _ in range(rng.randint(2, 5) if kind != "imager" else rng.randint(1, 6)):
                b = rng.randint(0, 10) + shift
                pts.append([b, b + rng.randint(1, 8)])
            coll.append(pts)
        if kind == "imager" and len(coll) >= 2 and rng.random() < 0.3:
            coll.insert(rng.randrange(len(coll) + 1), [list(p) for p in coll[0]])      # the first diagram once more
        sets.append(coll)
    ops = []
    for i in range(rng.randint(3, 10)):
        op = rng.choice([1, 2, 3]) if i else rng.choice([1, 3, 2])      # a history may begin with a transform (unfitted estimator)
        if kind == "landscaper" and rng.random() < 0.15:
            op = 4                                                      # set_params(num_steps=<its current value>)
        ops.append([op, rng.randrange(nds)])
    return sets, ops


def validate(ctx, items, label, nproc=12):
    jobs = [it["job"] for it in items]
    results, _ = run_driver_parallel("transformers.py", jobs, nproc=nproc)
    cases, idx = [], []
    for i, (it, r) in enumerate(zip(items, results)):
        if "events" not in r:
            ctx.failure({"clause": "no-result", "detail": {k: r.get(k) for k in ("raised", "msg")}}, {"kind": "transformers", "item": it["desc"]})
            continue
        e = it["emb"]
        evs = []
        for ev in [dict(op=0, ds=0, attrs=r["init"], outs=[], statekey=0)] + r["events"]:
            ok = 1
            if it["job"]["kind"] == "landscaper":
                at = []
                for x in ev["attrs"]:
                    if x is None:
                        at.append(NOTFIXED + 1)
                    else:
                        t = e.ticks(unfl(x), 1)
                        if t is None or abs(t) > 10 ** 5:
                            ok, t = 0, 0
                        at.append(t)
            else:
                at = []
                for x in ev["attrs"][:7]:
                    t = e.ticks(unfl(x), 8, shift=False)
                    if t is None or abs(t) > 10 ** 8:
                        ok, t = 0, 0
                    at.append(t)
                at += ev["attrs"][7:]
            evs.append([ev["op"], ev["ds"] + 1, at, [[kx if it["job"]["kind"] == "imager" else kx + 1, d] for kx, d in ev["outs"]], ok, ev["statekey"], ev.get("empties_ok", 1)])
        init, evs = evs[0], evs[1:]
        if not init[4]:
            ctx.extra["skipped_undecodable_initial_state"] = ctx.extra.get("skipped_undecodable_initial_state", 0) + 1
            continue
        cases.append(dict(kind=it["job"]["kind"], ufix=it["ufix"], datasets=it["tladatasets"], events=evs, init=init[2])); idx.append(i)
    verdicts, st = tlc.run_batch("TraceTransformers", cases, nproc=nproc)
    ctx.extra.setdefault("trace_validation_runs", []).append(dict(label=label, cases=len(cases), tlc_states=st["states"], wall_s=round(st["wall"], 1)))
    for c, v, i in zip(cases, verdicts, idx):
        status, at, clause = v[2], v[3], v[4]
        it = items[i]
        fits = [ev[1] for ev in c["events"] if ev[0] in (1, 3)]
        ctx.count(1, key=str(it["desc"]), nontrivial=len(set(fits)) >= 2)
        if status == "ok":
            ctx.ok_trace()
            ctx.sample({"estimator": c["kind"], "user_fixed": it["desc"].get("fixed"), "ops(op,dataset)": it["job"]["ops"], "attrs_after_each_call": [ev[2] for ev in c["events"]][:5], "verdict": "ok"}, cap=4)
        else:
            ctx.failure({"clause": clause, "estimator": c["kind"], "unfixed_refit": bool(c["kind"] == "landscaper" and NOTFIXED in c["ufix"])},
                        {"kind": "transformers", "item": it["desc"], "event": at})


def make_items(ctx, n):
    rng = ctx.rng
    items = []
    for t in range(n):
        kind = "landscaper" if t % 2 == 0 else "imager"
        sets, ops = gen(rng, kind)
        e = E[t % len(E)]
        if kind == "landscaper":
            hom = rng.choice([0, 1])
            us = rng.choice([None, None, 0, -2, 3])
            ue = rng.choice([None, None, 20, 24])
            fsets = [[[[e.f(b), e.f(d)] for b, d in dg] for dg in coll] for coll in sets]
            job = dict(kind=kind, datasets=fsets, ops=ops, hom_deg=hom, num_steps=rng.choice([5, 9, 12]), flatten=rng.random() < 0.5,
                       start=None if us is None else e.f(us), stop=None if ue is None else e.f(ue))
            tlads = [[min(b for b, d in coll[hom]), max(d for b, d in coll[hom]), [i + 1]] for i, coll in enumerate(sets)]
            ufix = [NOTFIXED if us is None else us, NOTFIXED if ue is None else ue]
            desc = dict(kind=kind, sets=sets, ops=ops, fixed=[us, ue], hom=hom, emb=e.name, job=job)
        else:
            ps = rng.choice([1, 2, 3])
            fsets = [[[[e.f(b), e.f(d)] for b, d in dg] for dg in coll] for coll in sets]
            job = dict(kind=kind, datasets=fsets, ops=ops, birth_range=[e.f(0), e.f(4)], pers_range=[e.f(0), e.f(4)], pixel_size=e.f(ps),
                       sigma=float(e.f(1)) ** 2, single_as_array=rng.random() < 0.5,
                       skew=int(rng.random() < 0.65),                                  # 0: (birth, persistence) input, skew=False in every call
                       njobs=[(rng.choice([0, 0, 1, 2]) if op == 2 else 0) for op, _ in ops],     # transform through the n_jobs branch
                       empties=int(rng.random() < 0.3), share_equal=int(rng.random() < 0.5))
            tlads = [[0, 0, [1000 * i + j for j in range(len(coll))]] for i, coll in enumerate(sets)]
            ufix = [NOTFIXED, NOTFIXED]
            desc = dict(kind=kind, sets=sets, ops=ops, fixed=["pixel_size=%d" % ps], emb=e.name, job=job)
        items.append(dict(job=job, emb=e, ufix=ufix, tladatasets=tlads, desc=desc))
    return items


def spec_items(ctx, quick):
    """R: behaviours of Transformers.tla / TransformersImager.tla themselves (TLC -simulate, one file per random behaviour): the operation and the data
    set of every step are read off the state variables and the history is replayed on a real estimator"""
    rng = ctx.rng
    items = []
    OP = {"fit": 1, "transform": 2, "fit_transform": 3, "set_params": 4}
    r, behaviours = tlc.simulate_behaviours("Transformers", dict(MaxLen=6, FitKeepsFirst=False), 150 if quick else 4000, 7, ctx.seed + 5,
                                            invariants=["RefitForgets", "FitTransformIsFitThenTransform", "TransformUsesLastFit"])
    ctx.model("Transformers random behaviours (simulation mode)", r)
    DATA = [[0, 4], [2, 10], [1, 6], [14, 20]]
    for t, states in enumerate(behaviours):
        ops = []
        for st in states[1:]:
            if st["lastOp"] == "set_params":
                ops.append([4, 0]); continue
            X = st["lastFit"] if st["lastOp"] in ("fit", "fit_transform") else st["out"][2]
            ops.append([OP[st["lastOp"]], DATA.index(list(X))])
        if not ops:
            continue
        e = E[t % len(E)]
        hom = rng.choice([0, 1])
        us = None if states[0]["ustart"] == -1 else states[0]["ustart"]
        ue = None if states[0]["ustop"] == -1 else states[0]["ustop"]
        # collections of two diagrams; the one of the selected degree spans exactly <<min birth, max death>> of the model's data set
        sets = []
        for lo, hi in DATA:
            sel = [[lo, lo + 1], [hi - 1, hi], [lo, hi - 1]]
            other = [[7, 9], [20, 30]]
            sets.append([sel, other] if hom == 0 else [other, sel])
        fsets = [[[[e.f(b), e.f(d)] for b, d in dg] for dg in coll] for coll in sets]
        job = dict(kind="landscaper", datasets=fsets, ops=ops, hom_deg=hom, num_steps=rng.choice([5, 9]), flatten=rng.random() < 0.5,
                   start=None if us is None else e.f(us), stop=None if ue is None else e.f(ue))
        tlads = [[lo, hi, [i + 1]] for i, (lo, hi) in enumerate(DATA)]
        ufix = [NOTFIXED if us is None else us, NOTFIXED if ue is None else ue]
        items.append(dict(job=job, emb=e, ufix=ufix, tladatasets=tlads, desc=dict(kind="landscaper", sets=sets, ops=ops, fixed=[us, ue], hom=hom, emb=e.name, job=job, from_spec=1)))
    r, behaviours = tlc.simulate_behaviours("TransformersImager", dict(MaxLen=6, SkipPersOnRefit=False), 150 if quick else 4000, 7, ctx.seed + 6,
                                            invariants=["RefitForgets", "FitTransformIsFitThenTransform", "ElementByElementInOrder", "CoversData"])
    ctx.model("TransformersImager random behaviours (simulation mode)", r)
    BOXES = [([0, 8, 2, 6], 2), ([4, 14, 0, 10], 1), ([2, 6, 2, 12], 3)]      # (bounding box in half ticks, number of diagrams)
    for t, states in enumerate(behaviours):
        ops = []
        for st in states[1:]:
            X = st["lastFit"] if st["lastOp"] in ("fit", "fit_transform") else None
            if X is None:      # transform: the data set is identified by its element keys
                keys = [o[3] for o in st["out"]]
                di = {1: 0, 3: 1, 4: 2}[keys[0]]
            else:
                di = [b for b, _ in BOXES].index(list(X["box"]))
            ops.append([OP[st["lastOp"]], di])
        if not ops:
            continue
        e = E[t % len(E)]
        sets = []
        for (b0, b1, p0, p1), cnt in BOXES:
            b0, b1, p0, p1 = b0 // 2, b1 // 2, p0 // 2, p1 // 2       # whole ticks, (birth, persistence)
            corner = [[b0, p1], [b1, max(p0, 1) if p0 else p0 + 0]]
            if p0 == 0:
                corner = [[b0, p1], [b1, 1], [b0, 0]]       # a zero-persistence pair carries the lower edge of the box
            colls = [corner] + [[[(b0 + b1) // 2, max(1, (p0 + p1) // 2)]] for _ in range(cnt - 1)]
            sets.append(colls)
        skew = int(rng.random() < 0.6)
        asbd = lambda pts: [[b, b + p] for b, p in pts] if skew else pts
        fsets = [[[[e.f(x), e.f(y) if skew else float(e.s * y)] for x, y in asbd(dg)] for dg in coll] for coll in sets]
        ps = states[0]["ps"] // 2
        job = dict(kind="imager", datasets=fsets, ops=ops, birth_range=[e.f(0), e.f(2 * ps)], pers_range=[e.f(0), e.f(2 * ps)], pixel_size=e.f(ps), sigma=float(e.f(1)) ** 2,
                   single_as_array=rng.random() < 0.5, skew=skew, njobs=[(rng.choice([0, 0, 2]) if op == 2 else 0) for op, _ in ops])
        tlads = [[0, 0, [1000 * i + j for j in range(len(coll))]] for i, coll in enumerate(sets)]
        items.append(dict(job=job, emb=e, ufix=[NOTFIXED, NOTFIXED], tladatasets=tlads, desc=dict(kind="imager", sets=sets, ops=ops, fixed=["pixel_size=%d" % ps], emb=e.name, job=job, from_spec=1)))
    ctx.extra["spec_generated_histories"] = len(items)
    return items


def run(ctx):
    quick = ctx.tier == "quick"
    ctx.rule = RULE
    r = tlc.run_tlc("Transformers", workers=8, constants=dict(MaxLen=4 if quick else 6, FitKeepsFirst=False),
                    invariants=["RefitForgets", "FitTransformIsFitThenTransform", "TransformUsesLastFit"], properties=["TransformKeepsState", "SetParamsKeepsState"], heap="4g")
    ctx.model("Transformers (intended / repaired landscaper)", r)
    r = tlc.run_tlc("Transformers", workers=4, constants=dict(MaxLen=3, FitKeepsFirst=True), invariants=["RefitForgets"], heap="2g")
    ctx.model("Transformers with keep-first fit (pre-repair; expected to fail RefitForgets)", r, expect_violation="RefitForgets")
    r = tlc.run_tlc("TransformersImager", workers=4, constants=dict(MaxLen=4 if quick else 6, SkipPersOnRefit=False),
                    invariants=["RefitForgets", "FitTransformIsFitThenTransform", "ElementByElementInOrder", "CoversData"], properties=["TransformKeepsState"], heap="3g")
    ctx.model("TransformersImager (image transformer history machine)", r)
    r = tlc.run_tlc("TransformersImager", workers=2, constants=dict(MaxLen=3, SkipPersOnRefit=True), invariants=["RefitForgets"], heap="2g")
    ctx.model("TransformersImager with a fit that skips the persistence range on refit (expected to fail RefitForgets)", r, expect_violation="RefitForgets")
    validate(ctx, make_items(ctx, 600 if quick else 6000), "V")
    validate(ctx, spec_items(ctx, quick), "R")


def replay(ctx, rec):
    d = rec["case"]["item"]
    e = next(x for x in E if x.name == d["emb"])
    sets, hom = d["sets"], d.get("hom", 0)
    if d["kind"] == "landscaper":
        us, ue = d["fixed"]
        tlads = [[min(b for b, dd in coll[hom]), max(dd for b, dd in coll[hom]), [i + 1]] for i, coll in enumerate(sets)]
        ufix = [NOTFIXED if us is None else us, NOTFIXED if ue is None else ue]
    else:
        tlads = [[0, 0, [1000 * i + j for j in range(len(coll))]] for i, coll in enumerate(sets)]
        ufix = [NOTFIXED, NOTFIXED]
    validate(ctx, [dict(job=d["job"], emb=e, ufix=ufix, tladatasets=tlads, desc=d)], "replay", nproc=1)
