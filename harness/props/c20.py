"""C20 -- plots draw exactly the data and matchings they are given."""
from fractions import Fraction
from collections import Counter
from .. import tlc
from ..common import Emb, unfl, run_driver_parallel
LEVEL = "model_checking"

RULE = ("M: PlotMachine.tla -- plot_diagrams as a state machine, one action per step of the code, checked against the scene C20 describes for every call within the constants; the step orders of two defects (labels numbered after plot_only; infinity line placed before the lifetime reset) are refuted. R: the calls TLC enumerated, with the machine's limits and infinity-line ordinate (algorithm layer, divergence only), replayed on the real function. V: PlotScene.tla states the expected scene as a function of the inputs. Diagram plots: one scatter collection per plotted diagram "
        "(after plot_only), offsets = (birth, death) or (birth, death-birth) exactly on the float32 lattice, infinite deaths on one "
        "horizontal line strictly inside the y-limits with an infinity line drawn, limits containing all finite points (or the requested "
        "xy_range), axis labels, title, legend presence and texts. Matching plots (bottleneck and Wasserstein matchings returned by the real "
        "distance functions, diagrams of 0..5 points incl. one empty diagram): on the axes that was passed and on no other -- whether or not "
        "it is pyplot's current axes -- exactly one segment per matched pair, joining the two points or a point and its perpendicular foot "
        "((b+d)/2,(b+d)/2), and the arg-max row styled differently from every other segment (bottleneck). Option combinations x small "
        "diagrams are seeded. 3-D landscape plots are executed in C19 but their artists are not modelled. Level exploration.")
E = [Emb(1, 0, True, "tick=1"), Emb(Fraction(1, 4), 0, True, "tick=1/4"), Emb(2, 0, True, "tick=2")]
Q = 4


def dec(e, x, lo=None):
    v = unfl(x) if isinstance(x, str) else x
    fr = Fraction(v) / e.s * Q
    return fr


def gen_dgm(rng, n, inf_ok=True):
    pts = []
    for _ in range(n):
        b = rng.randint(0, 12)
        pts.append([b, b + rng.randint(1, 8), 1])
    if inf_ok and n and rng.random() < 0.4:
        for _ in range(rng.randint(1, 2)):
            pts.insert(rng.randrange(len(pts) + 1), [rng.randint(0, 12), 0, 0])
    return pts


def run(ctx):
    quick = ctx.tier == "quick"
    ctx.rule = RULE
    ctx.assumptions += ["coordinates are compared exactly on a float32-exact lattice (small multiples of 1/4, 1, 2)", "3-D landscape plots and the imager's own plot helpers are only executed (C19), not modelled"]
    rng = ctx.rng
    jobs, skel = [], []
    n1 = 250 if quick else 2500
    for t in range(n1):
        e = E[t % len(E)]
        nd = rng.choice([1, 1, 2, 3])
        dgms = [gen_dgm(rng, rng.randint(1, 5)) for _ in range(nd)]
        po = []
        if nd > 1 and rng.random() < 0.4:
            po = rng.sample(range(nd), rng.randint(1, nd))
        lifetime = int(rng.random() < 0.35)
        legend = int(rng.random() < 0.6)
        title = rng.choice(["", "", "My title"])
        labels = ["lab%d" % i for i in range(nd)] if rng.random() < 0.4 else []
        hasrange = int(rng.random() < 0.3)
        # a (tall) range covering the data, a zoomed view that cuts finite points off, or a range much wider than it is high
        rngticks = rng.choice([[-2, 30, -4, 40], [1, 7, 1, 7], [-2, 90, -4, 40]])
        if hasrange and rngticks[1] == 90:
            for dg in dgms:
                dg[0][2] = 0          # (an essential class in every diagram: the infinity line is there to be placed)
        f32 = rng.random() < 0.4
        rep = (not po) and rng.random() < 0.25
        if rep:
            dgms = [dgms[0]] + dgms
            nd += 1
            labels = ["lab%d" % i for i in range(nd)] if labels else []
        job = dict(kind="diagrams", dgms=[[[e.f(b), e.f(d) if f else float("inf")] for b, d, f in dg] for dg in (dgms[1:] if rep else dgms)], float32=f32, repeat_first=rep, plot_only=po, lifetime=lifetime, legend=legend,
                   title=title, labels=labels, xy_range=[e.f(v) for v in rngticks] if hasrange else None, diagonal=rng.random() < 0.8,
                   ax_is_current=rng.random() < 0.5, aslist=rep or rng.random() < 0.5)
        jobs.append(job)
        skel.append(dict(kind="diagrams", dgms=dgms, plotonly=po, lifetime=lifetime, hasrange=hasrange, range=rngticks, title=title, legend=legend,
                         labels=labels, q=Q, emb=e))
    n2 = 300 if quick else 3000
    for t in range(n2):
        e = E[t % len(E)]
        S = [p[:2] for p in gen_dgm(rng, rng.randint(0, 5), inf_ok=False)]
        T = [p[:2] for p in gen_dgm(rng, rng.randint(0 if S else 1, 5), inf_ok=False)]
        fn = "bottleneck" if t % 2 == 0 else "wasserstein"
        jobs.append(dict(kind="matching", fn=fn, S=[[e.f(b), e.f(d)] for b, d in S], T=[[e.f(b), e.f(d)] for b, d in T], ax_is_current=rng.random() < 0.5))
        skel.append(dict(kind="matching", fn=fn, S=S, T=T, q=Q, emb=e))
    n3 = 120 if quick else 1200
    for t in range(n3):
        e = E[t % len(E)]
        lkind = 1 + t % 2
        nb = rng.randint(1, 4)
        bars = []
        while len(bars) < nb:
            b, d = rng.randrange(0, 12, 2), rng.randrange(2, 16, 2)
            if b < d and [b, d] not in bars:
                bars.append([b, d])
        dr = None
        if rng.random() < 0.4:
            lo = rng.randint(0, 1)
            dr = [lo, lo + rng.randint(1, 2)]
        title = rng.choice(["", "T"]); labels = rng.choice([[], ["xx", "yy"]])
        job = dict(kind="landscape", lkind=lkind, bars=[[e.f(b), e.f(d)] for b, d in bars], title=title, labels=labels, depth_range=dr, dispatch=rng.random() < 0.5,
                   ax_is_current=rng.random() < 0.5, lazy=int(rng.random() < 0.4))
        if lkind == 2:
            if [0, 16] not in bars:
                bars.append([0, 16])        # a bar spanning the grid: the sampled landscape is never the "empty" sentinel
                job["bars"] = [[e.f(b), e.f(d)] for b, d in bars]
            job.update(start=e.f(0), stop=e.f(16), n=rng.choice([5, 9, 17]))
        jobs.append(job)
        skel.append(dict(kind="landscape", q=Q, emb=e, title=title, wantx=(labels[0] if labels else ""), wanty=(labels[1] if labels else ""), dr=dr))
    mj, ms = machine(ctx, quick)
    judge(ctx, mj + jobs, ms + skel)


MACHINE_INVS = ["OneCollectionPerPlottedDiagram", "CoordinatesAreTheData", "InfiniteDeathsOnOneLineInside", "InfinityLineAboveFinitePoints",
                "LimitsContainFinitePoints", "TitleAndLegendAsRequested", "LabelBelongsToItsDiagram", "DiagonalOnlyWhenAsked"]


def machine(ctx, quick):
    """M: PlotMachine.tla (plot_diagrams as a state machine) for every call within the constants, two defective step orders refuted;
    R: the calls TLC enumerated, with the limits and infinity-line position the machine arrives at, replayed on the real function."""
    rng = ctx.rng
    for cst in ([dict(MaxV=2, MaxPts=1, MaxDgms=2)] if quick else [dict(MaxV=2, MaxPts=2, MaxDgms=2), dict(MaxV=3, MaxPts=1, MaxDgms=3)]):
        cst = dict(cst, Variant='"intended"')
        r = tlc.run_tlc("PlotMachine", workers=16, constants=cst, invariants=MACHINE_INVS, properties=["ArgUntouched"], heap="10g", timeout=14400)
        ctx.model("PlotMachine (plot_diagrams as a state machine) %s" % cst, r, constants=cst)
    for var, inv in (("labels_after_select", "LabelBelongsToItsDiagram"), ("inf_before_lifetime", "InfiniteDeathsOnOneLineInside")):
        r = tlc.run_tlc("PlotMachine", workers=8, constants=dict(MaxV=2, MaxPts=1, MaxDgms=2, Variant='"%s"' % var), invariants=MACHINE_INVS, heap="6g")
        ctx.model("PlotMachine with the defective step order %s (%s must be refuted)" % (var, inv), r, expect_violation=inv)
    r = tlc.run_tlc("PlotMachine", workers=4, spec="FairSpec", constants=dict(MaxV=1, MaxPts=1, MaxDgms=2, Variant='"intended"'), properties=["Termination"], heap="4g")
    ctx.model("PlotMachine liveness under WF (every call returns)", r)
    r = tlc.run_tlc("PlotMachine", workers=1, constants=dict(MaxV=2, MaxPts=1, MaxDgms=2, Variant='"intended"'), constraints=["PrintDone"], heap="4g")
    cs = tlc.extract_printed(r["out"], "CASE")
    if r["error"] or not cs:
        ctx.machinery_errors.append("PlotMachine case generation failed:\n" + r["out"][-1500:]); return [], []
    ctx.extra["spec_generated_plot_calls"] = len(cs)
    rng.shuffle(cs)
    jobs, skel = [], []
    INF = 1000000
    for t, c in enumerate(cs[: (700 if quick else 22080)]):
        _, dg, po, lifetime, legend, title, given, hasrange, diagonal, lim, binf = c
        e = E[t % len(E)]
        dgms = [[[b, (0 if d == INF else d), (0 if d == INF else 1)] for b, d in d_] for d_ in dg]
        nd = len(dgms)
        labels = ["lab%d" % i for i in range(nd)] if given else []
        rngticks = [-1, 2 + 3, -2, 2 + 4]          # PlotMachine!XYRange for MaxV = 2
        hasinf = any(p[2] == 0 for i in (po or range(nd)) for p in dgms[i])
        job = dict(kind="diagrams", dgms=[[[e.f(b), e.f(d) if f else float("inf")] for b, d, f in d_] for d_ in dgms], float32=rng.random() < 0.4, repeat_first=False,
                   plot_only=list(po), lifetime=int(lifetime), legend=int(legend), title=("My title" if title else ""), labels=labels,
                   xy_range=[e.f(v) for v in rngticks] if hasrange else None, diagonal=bool(diagonal), ax_is_current=rng.random() < 0.5, aslist=nd > 1 or rng.random() < 0.5)
        # plot_only=[0, ...]: an empty list and [0] are both falsy/truthy in the code as written; keep what TLC chose
        jobs.append(job)
        # the machine's numbers are in 1/K ticks of the TICK lattice; the embedding's shift moves x (and y outside lifetime mode)
        skel.append(dict(kind="diagrams", dgms=dgms, plotonly=list(po), lifetime=int(lifetime), hasrange=int(hasrange), range=rngticks, title=("My title" if title else ""), legend=int(legend),
                         labels=labels, q=Q, emb=e, alg=[lim[0], lim[1], lim[2], lim[3], (binf if hasinf else None)]))
    return jobs, skel


def judge(ctx, jobs, skel, nproc=12):
    results, _ = run_driver_parallel("plots.py", jobs, nproc=nproc)
    cases, idx = [], []
    for i, (sk, r) in enumerate(zip(skel, results)):
        e = sk["emb"]
        if r.get("raised") or r.get("noresult") or ("colls" not in r and "onax" not in r and "obslines" not in r):
            ctx.failure({"clause": "plot-raised", "detail": {k: r.get(k) for k in ("raised", "msg")}}, {"kind": "plot", "job": jobs[i]}); continue
        c = {k: v for k, v in sk.items() if k != "emb"}
        lat = 1
        def D(x):
            nonlocal lat
            fr = dec(e, x)
            if sk["kind"] == "matching":      # the perpendicular foot is computed by a float rotation: snap within 1e-9
                r0 = round(fr)
                if abs(fr - r0) <= Fraction(1, 10 ** 9) * max(1, abs(r0)):
                    fr = Fraction(r0)
            if fr.denominator != 1 or abs(fr) > 10 ** 8:
                lat = 0
                return 0
            return int(fr)
        if sk["kind"] == "diagrams":
            import math
            import numpy as np
            INFY = 100000000
            offl = []          # ordinates that are not lattice values: where the code put the infinite deaths
            def Y(y):
                fy = dec(e, y)
                if fy.denominator != 1:
                    offl.append(unfl(y))
                    return INFY
                return D(y)
            c["colls"] = [[[D(x), Y(y)] for x, y in coll] for coll in r["colls"]]
            groups = sorted({float(np.float32(v)) for v in offl})
            c["ninfvals"] = len(groups)
            ylo, yhi = unfl(r["ylim"][0]), unfl(r["ylim"][1])
            c["infinside"] = int(bool(groups) and all(ylo < v < yhi for v in offl))
            c["inflines"] = 0
            if groups:
                g = groups[0]
                near = lambda v: abs(unfl(v) - g) <= 1e-6 * max(1.0, abs(g))       # the line is drawn in float64, the points are its float32 copies
                c["inflines"] = sum(1 for l in r["lines"] if near(l["p"][1]) and near(l["p"][3]) and unfl(l["p"][0]) != unfl(l["p"][2]))
            fl_ = lambda x: int(math.floor(dec(e, x))); ce_ = lambda x: int(math.ceil(dec(e, x)))
            c["xlim"] = [D(r["xlim"][0]), D(r["xlim"][1])] if sk["hasrange"] else [fl_(r["xlim"][0]), ce_(r["xlim"][1])]
            c["ylim"] = [D(r["ylim"][0]), D(r["ylim"][1])] if (sk["hasrange"] and not sk["lifetime"]) else [fl_(r["ylim"][0]), ce_(r["ylim"][1])]
            c["xlabel"], c["ylabel"], c["stitle"], c["haslegend"], c["legtexts"] = r["xlabel"], r["ylabel"], r["title"], r["haslegend"], r["legtexts"]
            c["colllabels"], c["reflabels"] = r.get("colllabels", []), r.get("reflabels", [])
            # algorithm layer: the machine's limits / infinity line against the observed ones (units of 1/(1000 K) tick, K = 200)
            c["alg"], c["obsalg"], c["algtol"] = [], [], 0
            if sk.get("alg"):
                U = 200 * 1000
                obs = [dec(e, r["xlim"][0]), dec(e, r["xlim"][1]), dec(e, r["ylim"][0]), dec(e, r["ylim"][1])]      # (in 1/Q ticks; the embeddings of this check have no shift)
                exp = list(sk["alg"][:4])
                if sk["alg"][4] is not None and groups:
                    obs.append(Fraction(groups[0]) / e.s * Q); exp.append(sk["alg"][4])
                c["alg"] = [int(v) * 1000 for v in exp]
                c["obsalg"] = [int(round(v * U / Q)) if abs(v) < 10 ** 6 else 0 for v in obs]
                c["algtol"] = 2000          # 1e-2 / K tick: float32 arithmetic of the code on coordinates of a few ticks
            c.pop("alg_", None)
        elif sk["kind"] == "landscape":
            c.pop("dr", None)
            c["content"] = [[[D(x), D(y)] for x, y in d] for d in r["content"]]
            c["obslines"] = [[[D(x), D(y)] for x, y in l] for l in r["obslines"]]
            nd = len(r["content"])
            c["depthsel"] = [k2 for k2 in range(sk["dr"][0], sk["dr"][1]) if k2 < nd] if sk["dr"] else []
            if sk["dr"] and not c["depthsel"]:
                c["depthsel"] = []
                c["content"] = []          # nothing selected: nothing must be drawn
            c["stitle"], c["xlabel"], c["ylabel"], c["onother"] = r["title"], r["xlabel"], r["ylabel"], r["onother"]
        else:
            c["rows"], c["maxrow"] = r["rows"], (r["maxrow"] if sk["fn"] == "bottleneck" else -1)
            segs = r["onax"]
            nonframe = [l for l in segs if not (l["p"][0] == l["p"][1] and l["p"][2] == l["p"][3]) and l["p"][1] != l["p"][3]]
            styles = {}
            onax = []
            for l in segs:
                if l not in nonframe:
                    continue     # diagonal / horizon lines of the underlying diagram plot: not segments of the matching (their ends are not lattice values)
                st = styles.setdefault(tuple(l["style"]), len(styles) + 1)
                onax.append([D(l["p"][0]), D(l["p"][1]), D(l["p"][2]), D(l["p"][3]), st])
            c["onax"], c["onother"] = onax, r["onother"]
            c["nlines"], c["nframe"] = r.get("nlines", 0), r.get("nframe", -1)
        c["lattice"] = lat
        cases.append(c); idx.append(i)
    verdicts, st = tlc.run_batch("PlotScene", cases, nproc=12)
    ctx.extra.setdefault("trace_validation_runs", []).append(dict(label="V", cases=len(cases), tlc_states=st["states"], wall_s=round(st["wall"], 1)))
    for c, v, i in zip(cases, verdicts, idx):
        status, clause = v[2], v[3]
        ctx.count(1, key=str(jobs[i]), nontrivial=True)
        if status == "ok":
            ctx.ok_trace()
            ctx.sample({"job": {k: jobs[i][k] for k in jobs[i] if k not in ("dgms",)}, "verdict": "ok"}, cap=4)
        elif status == "divergence":
            ctx.divergence({"clause": clause, "job": jobs[i], "machine": c.get("alg"), "observed": c.get("obsalg")})
        else:
            sk = {k2: v2 for k2, v2 in skel[i].items() if k2 != "emb"}
            sk["embname"] = skel[i]["emb"].name
            ctx.failure({"clause": clause, "kind": c["kind"], "fn": c.get("fn"), "ax_is_current": bool(jobs[i].get("ax_is_current"))}, {"kind": "plot", "job": jobs[i], "skel": sk, "case": {k: c[k] for k in c if k not in ("emb",)}})


def replay(ctx, rec):
    c = rec["case"]
    sk = dict(c["skel"])
    name = sk.pop("embname")
    sk["emb"] = next(x for x in E if x.name == name)
    judge(ctx, [c["job"]], [sk], nproc=1)
