"""C17 -- mGH accepts every graph representation and degrades gracefully."""
from .. import mgh, tlc
from ..common import run_driver_parallel, unfl

RULE = ("Abstract graph = set of undirected edges; containers (nested list/tuple, dense int/float/bool, CSR/CSC/LIL/sparse array; "
        "upper-, lower-triangular or symmetric adjacency; relabelled) are refinement mappings onto it. R: every connected labelled graph on "
        "<=4 vertices (the set MGH.tla's Init enumerates) under all 17 representations; V: random graphs <=7 vertices, random relabellings, "
        "collections of 3..5 graphs, disconnected graphs (2..3 components, ties in size). TraceMGH.tla recomputes shortest paths, components "
        "and the exact distance from the abstract graph and requires: valid bracket under every container, identical lower bound for "
        "identical labelling, collection matrices symmetric with zero diagonal and bracketing entries, disconnected => warning + bracket for "
        "a largest component (raising is a violation). Non-trivial = a graph with >=3 vertices or a collection.")


def _run_groups(ctx, groups, label, nproc=12):
    """groups: list of dict(gx, gy, jobs=[job...], disconnected) ; all jobs of a group are the same labelled pair"""
    flat = [j for g in groups for j in g["jobs"]]
    results, _ = run_driver_parallel("mgh.py", flat, nproc=nproc)
    cases, meta = [], []
    pos = 0
    for g in groups:
        rs = results[pos:pos + len(g["jobs"])]
        pos += len(g["jobs"])
        lb2s = []
        for r in rs:
            v = mgh.half2(unfl(r["lb"])) if "lb" in r else None
            lb2s.append(v)
        for j, r in zip(g["jobs"], rs):
            if r.get("machinery") or r.get("noresult"):
                ctx.machinery_errors.append(str(r)); continue
            others = [x for x in lb2s if x is not None]
            c = mgh.pair_case(g["gx"], g["gy"], r, exact=g.get("exact", True), others=others, algo=False)
            cases.append(c); meta.append((g, j))
    _judge(ctx, cases, meta, label, nproc)


def _judge(ctx, cases, meta, label, nproc=12):
    verdicts, st = tlc.run_batch("TraceMGH", cases, nproc=nproc, heap="3g")
    ctx.extra.setdefault("trace_validation_runs", []).append(dict(label=label, cases=len(cases), tlc_states=st["states"], wall_s=round(st["wall"], 1)))
    for c, v, (g, j) in zip(cases, verdicts, meta):
        status, clause = v[2], v[3]
        key = (c["kind"], str(c.get("EX")), str(c.get("EY")), str([x["repr"] for x in j["graphs"]]), j["call"], str(c.get("L2")))
        ctx.count(1, key=key, nontrivial=(c["kind"] == "matrix" or c["nX"] >= 3 or c["nY"] >= 3))
        if status in ("ok", "divergence"):
            ctx.ok_trace()
            if c["kind"] == "pair":
                ctx.sample({"X": [c["nX"], c["EX"]], "Y": [c["nY"], c["EY"]], "containers": [x["repr"] for x in j["graphs"]][:2], "call": j["call"],
                            "disconnected": bool(g.get("disconnected")), "lb2": c["lb2"], "ub2": c["ub2"], "warn": c["warn"], "verdict": "ok"}, cap=5)
        elif status == "machinery":
            ctx.machinery_errors.append("TraceMGH: %s" % clause)
        else:
            own = "C05" if clause.startswith("C05") else "C17"
            if own == "C17":
                ctx.failure({"clause": clause, "disconnected": bool(g.get("disconnected"))}, {"kind": "mgh17", "group": {"gx": g["gx"], "gy": g["gy"], "disconnected": g.get("disconnected", False)}, "job": j})
            else:
                ctx.extra["failures_owned_by_other_property"] = ctx.extra.get("failures_owned_by_other_property", 0) + 1
                ctx.traces_total += 1


def _pair_job(gx, gy, rx, ry, seed):
    return dict(call="pair", graphs=[dict(n=gx[0], edges=gx[1], repr=rx), dict(n=gy[0], edges=gy[1], repr=ry)], seed=seed, order=None)


def _disconnected(rng, nmax=7):
    """union of 2..3 connected pieces (sizes may tie), randomly relabelled"""
    k = rng.choice([2, 2, 3])
    sizes = [rng.randint(1, 4) for _ in range(k)]
    if rng.random() < 0.3:
        sizes[1] = sizes[0]
    E, off = [], 0
    for s in sizes:
        E += [(a + off, b + off) for a, b in mgh.rand_connected(rng, s)]
        off += s
    n = off
    E2, _ = mgh.relabel(rng, n, E)
    return (n, E2)


def run(ctx):
    quick = ctx.tier == "quick"
    ctx.rule = RULE
    ctx.assumptions += ["COO/DOK/DIA/BSR containers and non-contiguous views are refused by SciPy's csgraph before any persim logic runs; excluded"]
    mgh.run_models(ctx, quick, "C17")
    rng = ctx.rng
    small = mgh.all_connected_graphs(4)
    groups = []
    for i, gx in enumerate(small):
        if quick and (i + ctx.seed) % 2:
            continue
        gy = rng.choice(small)
        jobs = [_pair_job(gx, gy, r, mgh.REPRS[(k + 3) % len(mgh.REPRS)] if k % 2 else r, seed=i) for k, r in enumerate(mgh.REPRS)]
        groups.append(dict(gx=gx, gy=gy, jobs=jobs))
    _run_groups(ctx, groups, "R-representations")
    groups = []
    for t in range(40 if quick else 400):
        nx, ny = rng.randint(2, 7), rng.randint(1, 7)
        gx, gy = (nx, mgh.rand_connected(rng, nx)), (ny, mgh.rand_connected(rng, ny))
        gx = (nx, mgh.relabel(rng, nx, gx[1])[0])
        reps = rng.sample(mgh.REPRS, 5)
        groups.append(dict(gx=gx, gy=gy, jobs=[_pair_job(gx, gy, r, rng.choice(mgh.REPRS), seed=t) for r in reps]))
    _run_groups(ctx, groups, "V-representations")
    # "under any vertex relabelling": a graph against a relabelled copy of itself, 6..12 vertices, under random containers.  The relabelling is
    # the certificate (TLC verifies it is an isometry): the distance is 0, so any positive lower bound is a violation.  Many pairs are run
    # through the code; TLC sees every pair with a positive lower bound plus a sample of the rest.
    items = []
    def iso_filter(gx, gy, iso, keep):
        def mk(res):
            c = mgh.pair_case(gx, gy, res, False, iso=iso, algo=False)
            return [c] if (keep or c["raised"] or not c["halfint"] or c["lb2"] > 0) else []
        return mk
    for t in range(2500 if quick else 30000):
        n = rng.randint(6, 12)
        gx = (n, mgh.rand_connected(rng, n, rng.choice(["tree", "tree", "sparse", "lollipop", "sparse"])))
        E2, p = mgh.relabel(rng, n, gx[1])
        gy = (n, E2)
        it = mgh.mk_pair_item(gx, gy, rng.choice(mgh.REPRS), rng.choice(mgh.REPRS), seed=rng.randrange(1000), order=[0, 0], exact=False, owner="C17", iso=p, hook=False)
        it["mk"] = iso_filter(gx, gy, p, t % 60 == 0)
        items.append(it)
    mgh.validate(ctx, items, "V-relabelled copies (6..12 vertices, relabelling verified by TLC)", "C17")
    # "valid brackets of the same distance" where the lower-bound machinery actually decides something: many sparse pairs under random
    # containers are run through the code; those whose lower bound was raised ABOVE the trivial bound go to the exact oracle
    items = []
    def focused(gx, gy):
        DXh, DYh = mgh.dist_matrix(*gx), mgh.dist_matrix(*gy)
        triv = max(abs(max(map(max, DXh)) - max(map(max, DYh))), int(gx[0] != gy[0]))
        def mk(res):
            c = mgh.pair_case(gx, gy, res, True, algo=False)
            return [c] if (c["raised"] or not c["halfint"] or c["lb2"] > triv) else []
        return mk
    for t in range(2500 if quick else 30000):
        nx, ny = rng.randint(4, 8), rng.randint(4, 8)
        gx, gy = (nx, mgh.rand_connected(rng, nx, rng.choice(["tree", "sparse", "star", "path", "lollipop"]))), (ny, mgh.rand_connected(rng, ny, rng.choice(["tree", "sparse", "star", "path"])))
        it = mgh.mk_pair_item(gx, gy, rng.choice(mgh.REPRS), rng.choice(mgh.REPRS), seed=rng.randrange(1000), order=[0, 0], exact=True, owner="C17", hook=False)
        it["mk"] = focused(gx, gy)
        items.append(it)
    mgh.validate(ctx, items, "V-focused (lower bound above the trivial bound, random containers)", "C17")
    # disconnected graphs
    groups = []
    for t in range(60 if quick else 600):
        gx = _disconnected(rng)
        gy = _disconnected(rng) if t % 3 == 0 else (lambda n: (n, mgh.rand_connected(rng, n)))(rng.randint(1, 6))
        if t % 2:
            gx, gy = gy, gx
        reps = rng.sample(mgh.REPRS, 2)
        groups.append(dict(gx=gx, gy=gy, disconnected=True, jobs=[_pair_job(gx, gy, r, r, seed=t) for r in reps]))
    _run_groups(ctx, groups, "V-disconnected")
    # dtype boundaries of the "smallest sufficient integer type": diameters around 127/128 (and 255/256 in the thorough tier)
    # against a single vertex, where the exact distance is diam/2 and the oracle is cheap at any size
    groups = []
    one = (1, [])
    for n in ([126, 128, 129, 131] if quick else [120, 126, 127, 128, 129, 130, 131, 140, 200, 255, 256, 257, 258, 300]):
        for sty in (["path"] if quick else ["path", "cycle2"]):
            gx = (n, mgh.rand_connected(rng, n, "path")) if sty == "path" else (2 * n, mgh.rand_connected(rng, 2 * n, "cycle"))
            if gx[0] > 330:
                continue
            rep = rng.choice([r for r in mgh.REPRS if r["kind"] in ("csr", "dense", "list")])
            jobs = [_pair_job(gx, one, rep, mgh.CANON, seed=n), _pair_job(one, gx, mgh.CANON, rep, seed=n)]
            groups.append(dict(gx=gx, gy=one, jobs=[jobs[0]]))
            # ... and against K2 and the path on 3 vertices (no exact oracle at this size: the diameter-difference bound decides the upper bound,
            # 2*mGH >= diam X - diam Y for every pair of maps)
            for small in ((2, [(1, 2)]), (3, [(1, 2), (2, 3)])):
                groups.append(dict(gx=gx, gy=small, exact=False, jobs=[_pair_job(gx, small, rep, mgh.CANON, seed=n)]))
                groups.append(dict(gx=small, gy=gx, exact=False, jobs=[_pair_job(small, gx, mgh.CANON, rep, seed=n + 1)]))
            groups.append(dict(gx=one, gy=gx, jobs=[jobs[1]]))
    _run_groups(ctx, groups, "V-dtype-boundary", nproc=8)
    # the other side of the same boundary: more than 127 VERTICES with a small diameter, under list / dense / sparse containers
    big_reprs = [r for r in mgh.REPRS if r["kind"] in ("csr", "dense", "list", "lil")]
    mgh.validate(ctx, mgh.many_vertices_items(rng, "C17", quick, reprs=big_reprs), "V-many-vertices-small-diameter", "C17", nproc=8)
    # collections
    jobs, gl = [], []
    for t in range(25 if quick else 250):
        k = rng.randint(2, 5)
        gs = [(lambda n: (n, mgh.rand_connected(rng, n)))(rng.randint(1, 6)) for _ in range(k)]
        rep = rng.choice(mgh.REPRS)
        jobs.append(dict(call="collection", graphs=[dict(n=g[0], edges=g[1], repr=rep if t % 2 else rng.choice(mgh.REPRS)) for g in gs], seed=t, order=None))
        gl.append(gs)
    _collections(ctx, jobs, gl, "V-collections")


def _collections(ctx, jobs, gl, label, nproc=12):
    results, _ = run_driver_parallel("mgh.py", jobs, nproc=nproc)
    cases, meta = [], []
    for j, gs, r in zip(jobs, gl, results):
        g = dict(gx=None, gy=None)
        if r.get("raised") or "lbs" not in r:
            ctx.failure({"clause": "C17-collection-raises", "detail": r.get("raised")}, {"kind": "mgh17", "job": j})
            continue
        L = [[mgh.half2(unfl(x)) for x in row] for row in r["lbs"]]
        U = [[mgh.half2(unfl(x)) for x in row] for row in r["ubs"]]
        if any(x is None for row in L + U for x in row) or len(L) != len(gs):
            ctx.failure({"clause": "C17-collection-not-half-integer-matrices"}, {"kind": "mgh17", "job": j})
            continue
        cases.append(dict(kind="matrix", L2=L, U2=U)); meta.append((g, j))
        for a in range(len(gs)):
            for b in range(len(gs)):
                if a != b:
                    res = {"lb": float(L[a][b] / 2).hex(), "ub": float(U[a][b] / 2).hex(), "warn": r.get("warn", 0)}
                    cases.append(mgh.pair_case(gs[a], gs[b], res, exact=True, algo=False)); meta.append((dict(gx=gs[a], gy=gs[b]), j))
    _judge(ctx, cases, meta, label, nproc)


def replay(ctx, rec):
    c = rec["case"]
    j = c["job"]
    if c.get("kind") == "mgh":
        g = j["graphs"]
        it = mgh.mk_pair_item((g[0]["n"], [tuple(e) for e in g[0]["edges"]]), (g[1]["n"], [tuple(e) for e in g[1]["edges"]]), g[0]["repr"], g[1]["repr"],
                              j.get("seed", 0), j.get("order"), bool(c.get("exact", 1)), c.get("owner", "C17"), iso=c.get("iso"), cmaps=c.get("cmaps"))
        mgh.validate(ctx, [it], "replay", "C17", nproc=1)
    elif j["call"] == "pair":
        g = c["group"]
        _run_groups(ctx, [dict(gx=(g["gx"][0], [tuple(e) for e in g["gx"][1]]), gy=(g["gy"][0], [tuple(e) for e in g["gy"][1]]), disconnected=g.get("disconnected"), jobs=[j])], "replay", nproc=1)
    else:
        gs = [(g["n"], [tuple(e) for e in g["edges"]]) for g in j["graphs"]]
        _collections(ctx, [j], [gs], "replay", nproc=1)
