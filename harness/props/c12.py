"""C12 -- imager geometry stays self-consistent under any configuration history."""
from fractions import Fraction
from .. import tlc
from ..common import mktempdir as _mktempdir
from ..common import Emb, EXACT_EMBS, DEC_EMBS, unfl, run_driver_parallel

RULE = ("M: ImagerGeometry.tla -- constructor/setters/fit arithmetic as coded (exact integers, half ticks) against the contract for all "
        "histories of length <=MaxLen. R/V: seeded histories (ctor, birth_range, pers_range, pixel_size, fit on single diagrams and "
        "collections, skew or not; ranges that are not multiples of the pixel size) replayed on a real PersistenceImager under tick sizes "
        "1, 1/4 (exact) and 0.1, 0.7, 1/3 (inexact quotients); after every operation all public attributes, the shapes of every image produced (single diagrams, collections, "
        "empty diagrams alone and inside a collection) and "
        "tiny-box probes just inside the four corners of pixels are recorded; TraceImager.tla checks the contract event by event. "
        "Non-trivial = a history with an operation whose request is not a whole number of pixels; distinct = (history, tick).")
TICKS = [Emb(1, 0, True, "tick=1"), Emb(Fraction(1, 4), 0, True, "tick=1/4"), Emb(Fraction(1, 10), 0, False, "tick=0.1"),
         Emb(Fraction(7, 10), 0, False, "tick=0.7"), Emb(Fraction(1, 3), 0, False, "tick=1/3"), Emb(Fraction(3, 100), 0, False, "tick=0.03"),
         Emb(Fraction(1, 2 ** 40), 0, True, "tick=2^-40"), Emb(Fraction(7, 10 ** 10), 0, False, "tick=7e-10"), Emb(30, 0, True, "tick=30")]


FITDTYPES = [None, None, "uint8", "int16", "int8", "uint16", "int64"]


def gen_history(rng, maxlen, maxe=12, maxps=4):
    # births of one history are translated by sh ticks (negative filtration values: births entirely below zero, or straddling it)
    sh = rng.choice([0, 0, 0, -3, -15, -40, 7])
    def rng_range(sh=0):
        a = rng.randint(0, maxe - 1)
        return (a + sh, rng.randint(a + 1, maxe) + sh)
    ops = [["ctor", rng_range(sh), rng_range(), rng.randint(1, maxps)]]
    for _ in range(rng.randint(0, maxlen - 1)):
        k = rng.choice(["birth", "pers", "pix", "fit", "fit"])
        if k == "birth":
            ops.append(["birth", rng_range(sh)])
        elif k == "pers":
            ops.append(["pers", rng_range()])
        elif k == "pix":
            ops.append(["pix", rng.randint(1, maxps)])
        else:
            nd = rng.choice([1, 1, 2, 3])
            dgms = []
            for _ in range(nd):
                npt = rng.randint(2, 5) if nd == 1 else rng.randint(1, 5)        # (collections may hold diagrams with a single pair)
                dgms.append([[rng.randint(0, maxe) + sh, rng.randint(1, maxe)] for _ in range(npt)])  # (birth, persistence>0) ticks
            bs = [p[0] for d in dgms for p in d]
            ps_ = [p[1] for d in dgms for p in d]
            if min(bs) == max(bs):
                dgms[0][0][0] = max(bs) + 1
            if min(ps_) == max(ps_):
                dgms[0][0][1] = max(ps_) + 1
            ops.append(["fit", dgms, rng.random() < 0.5, nd > 1 or rng.random() < 0.3, rng.random() < 0.4])    # last: through fit_transform
    return ops


def to_job(ops, e):
    out = []
    for op in ops:
        k = op[0]
        if k == "ctor":
            out.append(["ctor", e.f(op[1][0]), e.f(op[1][1]), e.f(op[2][0]), e.f(op[2][1]), e.f(op[3])])
        elif k in ("birth", "pers"):
            out.append([k, e.f(op[1][0]), e.f(op[1][1])])
        elif k == "pix":
            out.append(["pix", e.f(op[1])])
        else:
            skew = op[2]
            # ticks are (birth, persistence); with skew=True the code expects (birth, death)
            out.append(["fit", [[[e.f(b), e.f(b + p) if skew else e.f(p)] for b, p in d] for d in op[1]], int(skew), int(op[3]), int(len(op) > 4 and op[4])])
    return {"ops": out, "tick": float(e.s), "fitdtype": FITDTYPES[(len(ops) + sum(len(str(o)) for o in ops)) % len(FITDTYPES)]}


def to_case(ops, obs, e):
    evs = []
    q = 1
    # find a common q for all observations of the history
    for qq in (1, 2, 4, 8):
        good = True
        for o in obs:
            for kx in ("ps", "b0", "b1", "p0", "p1", "W", "H"):
                if e.ticks(unfl(o[kx]), 2 * qq, shift=False) is None:
                    good = False
        if good:
            q = qq
            break
    for op, o in zip(ops, obs):
        vals = [e.ticks(unfl(o[kx]), 2 * q, shift=False) for kx in ("ps", "b0", "b1", "p0", "p1", "W", "H")]
        lat = int(all(v is not None and abs(v) < 10 ** 8 for v in vals))
        ev = dict(op=op[0], r1=[0, 0], r2=[0, 0], pz=0, pts=[], lattice=lat, obs=[v if lat else 0 for v in vals],
                  res=o["res"], shapes=[sh_ if len(sh_) == 2 else [-1, -1] for sh_ in o["shapes"]], probes=o["probes"])
        if op[0] == "ctor":
            ev.update(r1=list(op[1]), r2=list(op[2]), pz=op[3])
        elif op[0] == "birth":
            ev.update(r1=list(op[1]))
        elif op[0] == "pers":
            ev.update(r2=list(op[1]))
        elif op[0] == "pix":
            ev.update(pz=op[1])
        else:
            ev.update(pts=[list(p) for d in op[1] for p in d])
        evs.append(ev)
    return dict(q=q, events=evs, exactemb=int(e.exact))


def nontrivial(ops):
    return len(ops) >= 2


def validate(ctx, hists, embs, label, nproc=12):
    jobs = [to_job(h, e) for h, e in zip(hists, embs)]
    results, _ = run_driver_parallel("imager.py", jobs, nproc=nproc)
    cases, idx = [], []
    for i, (h, r, e) in enumerate(zip(hists, results, embs)):
        if "obs" not in r:
            ctx.failure({"clause": "no-result", "detail": {k: r.get(k) for k in ("raised", "msg")}}, {"kind": "imager", "ops": h, "emb": e.name})
            continue
        cases.append(to_case(h, r["obs"], e)); idx.append(i)
    verdicts, st = tlc.run_batch("TraceImager", cases, nproc=nproc)
    ctx.extra.setdefault("trace_validation_runs", []).append(dict(label=label, cases=len(cases), tlc_states=st["states"], wall_s=round(st["wall"], 1)))
    for c, v, i in zip(cases, verdicts, idx):
        status, at, clause = v[2], v[3], v[4]
        ctx.count(1, key=(str(hists[i]), embs[i].name), nontrivial=nontrivial(hists[i]))
        if status == "ok":
            ctx.ok_trace()
            ctx.sample({"history_ticks": hists[i], "tick": embs[i].name, "last_observation": {k: c["events"][-1][k] for k in ("obs", "res", "shapes")}, "q": c["q"], "verdict": "ok"}, cap=3)
        elif status == "divergence":
            ctx.divergence({"clause": clause, "event": at, "history": hists[i], "tick": embs[i].name})
        else:
            ctx.failure({"clause": clause, "op": hists[i][at - 1][0]}, {"kind": "imager", "ops": hists[i], "emb": embs[i].name, "event": at})


def run(ctx):
    quick = ctx.tier == "quick"
    ctx.rule = RULE
    ctx.assumptions += ["ranges and fitted data of positive extent; parameters on a tick lattice; observations snapped to 1/q half ticks within 1e-9 relative"]
    for cst in ([dict(MaxE=4, MaxPs=3, MaxLen=3, CtorTruncates=False)] if quick else [dict(MaxE=4, MaxPs=3, MaxLen=4, CtorTruncates=False), dict(MaxE=6, MaxPs=4, MaxLen=3, CtorTruncates=False)]):
        r = tlc.run_tlc("ImagerGeometry", workers=16, constants=cst, invariants=["SquarePixels", "ResTimesPs", "PixelSizeKept", "Contains"], heap="8g", timeout=7200)
        ctx.model("ImagerGeometry (constructor as repaired) %s" % cst, r, constants=cst)
    r = tlc.run_tlc("ImagerGeometry", workers=4, constants=dict(MaxE=4, MaxPs=3, MaxLen=2, CtorTruncates=True), invariants=["SquarePixels"], heap="4g")
    ctx.model("ImagerGeometry with the truncating constructor (pre-repair design; expected to fail SquarePixels)", r, expect_violation="SquarePixels")
    from .. import tlaps
    tlaps.attach(ctx, "ImagerSetter", "for ALL integers: a range setter (ceil to whole pixels, symmetric padding) satisfies resolution*ps = width, covers the request, excess < one pixel")
    extra_params_table(ctx)
    n = 700 if quick else 8000
    hists = [gen_history(ctx.rng, 4 if i % 3 else 10) for i in range(n)]
    # very long ranges (tens of thousands of pixels along the birth axis, one or two along the other): the pixel count must still be the ceiling
    for _ in range(10 if quick else 60):
        ps = ctx.rng.choice([2, 10, 10])
        K = ctx.rng.randint(30000, 100000)
        long1 = (0, ps * K + ctx.rng.choice([1, 1, ps // 2, ps - 1]))
        h = [["ctor", long1, (0, ps), ps]]
        if ctx.rng.random() < 0.5:
            h = [["ctor", (0, 4 * ps), (0, ps), ps], ["birth", long1]]
        if ctx.rng.random() < 0.5:
            h.append(["pers", (0, ps + 1)])
        hists.append(h)
    n = len(hists)
    embs = [TICKS[i % len(TICKS)] for i in range(n)]
    validate(ctx, hists, embs, "V")
    # R: behaviours of ImagerGeometry.tla itself (TLC -simulate writes one file per random behaviour; the requests are read off the `req`
    # variable of every state) replayed on a real imager; the fitted data are two points spanning the requested box plus an interior one
    r, behaviours = tlc.simulate_behaviours("ImagerGeometry", dict(MaxE=6, MaxPs=3, MaxLen=6, CtorTruncates=False), 250 if quick else 6000, 7, ctx.seed + 11,
                                            invariants=["SquarePixels", "ResTimesPs", "PixelSizeKept", "Contains"])
    ctx.model("ImagerGeometry random behaviours (simulation mode, invariants checked along each)", r)
    rh = []
    for states in behaviours:
        ops = []
        for st in states[1:]:
            q = st["req"]
            h2 = lambda v: v // 2          # the model counts half ticks; requests are whole ticks
            if q[0] == "ctor":
                ops.append(["ctor", (h2(q[1][0]), h2(q[1][1])), (h2(q[2][0]), h2(q[2][1])), h2(q[3])])
            elif q[0] == "birth":
                ops.append(["birth", (h2(q[1][0]), h2(q[1][1]))])
            elif q[0] == "pers":
                ops.append(["pers", (h2(q[2][0]), h2(q[2][1]))])
            elif q[0] == "pix":
                ops.append(["pix", h2(q[3])])
            elif q[0] == "fit":
                b0_, b1_, p0_, p1_ = h2(q[1][0]), h2(q[1][1]), h2(q[2][0]), h2(q[2][1])
                pts = [[b0_, p1_], [b1_, p0_], [(b0_ + b1_) // 2, (p0_ + p1_) // 2 or p0_]]
                if p0_ == 0:          # persistence 0 is a legal coordinate of the box, not of a plotted pair: keep the box, lift the pair
                    pts = [[b0_, p1_], [b1_, p0_], [b0_, p0_]]
                ops.append(["fit", [pts], ctx.rng.random() < 0.5, ctx.rng.random() < 0.3, ctx.rng.random() < 0.4])
        if ops and ops[0][0] == "ctor":
            rh.append(ops)
    ctx.extra["spec_generated_histories"] = len(rh)
    validate(ctx, rh, [TICKS[i % len(TICKS)] for i in range(len(rh))], "R")


def extra_params_table(ctx):
    """growth beyond the listed properties: the constructor's parameter validation as a decision table generated by TLC"""
    import json, os, tempfile
    dump = os.path.join(_mktempdir(prefix="ipar_"), "dump.json")
    r = tlc.run_tlc("ImagerParams", workers=1, env={"DUMP_FILE": dump}, init="Init", nxt="Next", invariants=["AllValidAccepted"], heap="2g")
    ctx.model("ImagerParams decision table (beyond the listed properties)", r)
    if not os.path.exists(dump):
        return
    table = json.load(open(dump)); os.remove(dump)
    res, _ = run_driver_parallel("imager_params.py", [dict(args=t["args"]) for t in table], nproc=8)
    bad = [(t, x) for t, x in zip(table, res) if not (x.get("outcome") == "ok" if t["outcome"] == "ok" else str(x.get("outcome", "")).startswith(t["outcome"]))]
    ctx.extra["beyond_properties_imager_parameter_table"] = dict(cases=len(table), agree=len(table) - len(bad), examples_of_disagreement=[dict(args=t["args"], spec=t["outcome"], code=x.get("outcome", x)) for t, x in bad[:3]])
    if bad:
        ctx.notes.append("parameter-validation table: %d of %d combinations differ from the specification (not one of the listed properties; reported as a note)" % (len(bad), len(table)))


def replay(ctx, rec):
    c = rec["case"]
    e = next(x for x in TICKS if x.name == c["emb"])
    ops = [[o[0]] + [tuple(x) if isinstance(x, list) and o[0] in ("ctor", "birth", "pers") else x for x in o[1:]] for o in c["ops"]]
    validate(ctx, [ops], [e], "replay", nproc=1)
