"""C07 -- bottleneck and Wasserstein obey the metric and invariance laws at any size."""
from fractions import Fraction
from .. import tlc, laws
from ..common import EXACT_EMBS, DEC_EMBS, EXTREME_EMBS

RULE = ("M: the laws are theorems of the definitions -- Bottleneck.tla / Wasserstein.tla already model-check value = definition, and "
        "LawsOnDefinitions (below) checks symmetry, triangle, diagonal-point and translation invariance on BottleneckDef for all triples on the "
        "small lattice. V (the substance): sessions of 10 related diagrams with 30..120 (thorough 50..400) points each -- three random "
        "diagrams, a reordering, a copy with extra diagonal points, diagonal translates, rescalings and the empty diagram -- all 100 ordered "
        "pairs evaluated by persim.bottleneck / persim.wasserstein under exact and inexact embeddings and 3 hash seeds; MetricLaws.tla "
        "discovers the relations from the diagrams and checks every applicable law on the table: zero on reorderings, symmetry, "
        "non-negativity, triangle (all triples), invariance under diagonal points and diagonal translation, linear scaling, value against "
        "the empty diagram, bottleneck <= Wasserstein. Non-trivial = session with >=2 points per diagram; evaluations = calls into persim.")


def run(ctx):
    quick = ctx.tier == "quick"
    ctx.rule = RULE
    r = tlc.run_tlc("Bottleneck", workers=16, constants=dict(B=2, MaxS=2, MaxT=2, WithInf=False, TrackMatching=False), invariants=["Optimal", "LawsOnDefinition"], heap="6g")
    ctx.model("Bottleneck: laws on the definitional operator (B=2, <=2 vs <=2 points)", r)
    rng = ctx.rng
    embs = EXACT_EMBS[:4] + DEC_EMBS[:3]
    specs = []
    ns = (6, 6) if quick else (40, 40)
    for i in range(ns[0]):
        lo, hi = (30, 120) if quick else (50, 400)
        specs.append(dict(session=laws.make_session(rng, lo, hi, rng.choice([10, 30, 60]), neg=(i % 3 == 2)), fn="bott", emb=embs[i % len(embs)], zerotol=Fraction(1, 10 ** 12)))
    for i in range(ns[1]):
        lo, hi = (30, 150) if quick else (50, 400)
        specs.append(dict(session=laws.make_session(rng, lo, hi, rng.choice([10, 30, 60]), neg=(i % 3 == 1)), fn="wass", emb=embs[(i + 3) % len(embs)], aux=["BT"] if (quick and i < 2) or (not quick and i < 8) else [],
                          zerotol=Fraction(1, 10 ** 9)))
    # small sessions too: ties and tiny diagrams
    embs2 = embs + EXACT_EMBS[4:6] + EXTREME_EMBS     # incl. scales 2^-50, 2^30, 2^60 and 2^-100
    for i in range(36 if quick else 300):
        specs.append(dict(session=laws.make_session(rng, 0, 6, rng.choice([3, 6]), neg=(i % 2 == 1), far=(i % 3 == 0)), fn=("bott", "wass")[(i // 3) % 2], emb=embs2[i % len(embs2)], aux=[], zerotol=Fraction(1, 10 ** 9)))
    for sp in specs:
        if sp["fn"] == "wass" and "aux" not in sp:
            sp["aux"] = []
        # rounding allowance proportional to the coordinate magnitude: the code rotates by cos(pi/4), sin(pi/4), which differ by one ulp, so
        # the distance of a point to the diagonal carries an error of about 1.1e-16 * |coordinate| (wasserstein(X, X) = -6.6e-11 at -3.3e5)
        e = sp["emb"]
        mx = max([abs(v) + abs(float(e.t / e.s)) for d in sp["session"] for p in d for v in p] + [1.0])
        npts = max([len(d) for d in sp["session"]] + [1])
        sp["zerotol"] = max(sp["zerotol"], Fraction(mx * npts * 4) / 10 ** 16)
    # small sessions: ONE set of argument objects (float64 / integer arrays, nested lists) shared by all calls; half of them overwritten in
    # place with doubled coordinates and evaluated again
    for i, sp in enumerate(specs[ns[0] + ns[1]:]):
        sp["container"] = laws.pick_container(rng, sp, [None, "array", "int", "list", "intlist", "uint8", "int16", "uint16", "int8", "int32"])
        sp["edit"] = int(bool(sp["container"]) and i % 2 == 1)
        if sp["container"] in laws.NARROW:
            sp["edit"] = 0      # (doubling in place could leave the dtype\'s range)
    laws.run_sessions(ctx, specs, "V")


def replay(ctx, rec):
    laws.replay(ctx, rec)
