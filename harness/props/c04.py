"""C04 -- persistence image pixels are weighted kernel mass over each pixel."""
from .. import tlc, imgs
LEVEL = "model_checking"
RULE = ("M: ImageAccumulate.tla -- PersistenceImager.transform as a state machine (empty-argument early return, single / collection dispatch, serial or ANY worker schedule, private copy + skew conversion, one AddPoint per pair, assembly); PartialIsDef, ResultIsDef, EmptyIsZero, OneElementCollectionStaysAList, NonNegativeBounded, ArgUntouched and the lemmas on the definition (Additive, OrderFree, ZeroWeightNothing, SkewFormIrrelevant, CodedMassIsDefMass) for every call within the constants. R: every call TLC enumerated (diagrams and collections on the tick lattice, both input forms, with the expected numerators) replayed on a real imager with the box kernel, serially and through joblib workers; decided exactly by TraceAccumulate.tla with the model's own definitional operators. V: "
        "TraceImage.tla recomputes every pixel from the diagram: sum over points of weight * kernel mass of the pixel's square, image axes "
        "(birth, persistence), with the skew conversion done by the spec. Kernel mass is decided exactly where the specification can: uniform "
        "box = rational overlap (all placements: inside, on a pixel border, outside the imaged region); isotropic (scalar or s*I, the fast "
        "path) and axis-aligned Gaussians with standard deviations 2..16 ticks and all pixel borders minus means on the 1/8-sd lattice = "
        "differences of the Phi table (1e-12). Weights: persistence^n (n = 1, 2), linear_ramp (two parameter sets), a user callable. "
        "Correlated Gaussians (|rho| <= 0.85) enter only through C11's relations and C13's kernel laws. Configurations x diagrams are "
        "seeded; 3 exact embeddings. Non-trivial = every configuration; distinct = (configuration, diagrams, embedding).")


def run(ctx):
    quick = ctx.tier == "quick"
    ctx.rule = RULE
    ctx.assumptions += ["interior pixel values of correlated Gaussians are not compared with an independent 2-D integral (see C13)", "Phi table from the generated Tables.tla"]
    r = tlc.run_tlc("TestTables", init="Init", nxt="Next")
    ctx.model("Tables.tla constant relations (ASSUME)", r)
    r = tlc.run_tlc("ImagePixel", workers=16, constants=dict(MaxC=3, MaxW=2) if quick else dict(MaxC=4, MaxW=3), invariants=["InclusionExclusionIsMass", "Additive", "NonNegativeAtMostOne"], heap="6g")
    ctx.model("ImagePixel: corner inclusion-exclusion of the box CDF = overlap mass, additive over a pixel grid, within [0,1]", r)
    imgs.model_and_replay(ctx, "C04", quick)
    imgs.run(ctx, "C04", 150 if quick else 1500, 12 if quick else 100)    # the first cases also go through the n_jobs branch (incl. skew=False)


def replay(ctx, rec):
    imgs.replay(ctx, rec, "C04")
