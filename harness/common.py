"""Shared machinery: context (evidence, findings, verdict bookkeeping), embeddings, subprocess drivers."""
import json, os, random, sys, time, hashlib, subprocess
from fractions import Fraction

ROOT = os.path.dirname(os.path.dirname(os.path.abspath(__file__)))
EVID = os.path.join(ROOT, "evidence")
REPLAYS = os.path.join(ROOT, "replays")
VENV_PY = "/venv/bin/python"


_TMP = []


def mktempdir(prefix):
    """temporary directory removed at process exit"""
    import tempfile, atexit, shutil
    d = tempfile.mkdtemp(prefix=prefix)
    if not _TMP:
        atexit.register(lambda: [shutil.rmtree(x, ignore_errors=True) for x in _TMP])
    _TMP.append(d)
    return d


def load_known():
    p = os.path.join(ROOT, "known_findings.json")
    if not os.path.exists(p):
        return []
    return json.load(open(p)).get("findings", [])


class Ctx:
    """One check run.  Collects model-checking stats, trace verdicts, violations and writes evidence."""

    def __init__(self, pid, tier, seed, level="model_checking"):
        self.pid, self.tier, self.seed, self.level = pid, tier, seed, level
        self.rng = random.Random(seed * 1000003 + int(pid[1:]))
        self.t0 = time.time()
        self.states = 0
        self.transitions = 0
        self.model_runs = []
        self.traces_ok = 0
        self.traces_total = 0
        self.divergences = []
        self.evaluations = 0
        self.nontrivial = set()
        self.samples = []
        self.violations = []
        self.known_hits = {}
        self.notes = []
        self.assumptions = []
        self.trusted = ["TLC 1.8 (tla2tools.jar)", "harness/*.py encoders and drivers", "NumPy/SciPy as used by persim"]
        self.extra = {}
        self.rule = ""
        self.exhaustive = None
        self.machinery_errors = []
        self.known = [k for k in load_known() if k.get("property") == pid and k.get("status", "finding") == "finding"]

    # ---- model checking leg
    def model(self, name, r, expect_violation=None, constants=None):
        """Record a TLC model-checking run.  `expect_violation`: name of an invariant that the as-coded model is
        expected to violate (spec-level reproduction of a known finding) -- reported, never an alarm."""
        self.states += r["distinct"]
        self.transitions += r["states"]
        rec = dict(name=name, distinct=r["distinct"], generated=r["states"], wall_s=round(r["wall"], 1),
                   violated=r["violated"], constants=constants)
        if r.get("coverage"):
            rec["coverage_actions"] = r["coverage"]
        self.model_runs.append(rec)
        if r["error"]:
            self.machinery_errors.append("TLC error in %s:\n%s" % (name, r["out"][-2500:]))
            return False
        if expect_violation:
            if expect_violation not in r["violated"]:
                self.notes.append("model %s: expected violation of %s not observed" % (name, expect_violation))
            return True
        if r["violated"] or not r["ok"]:
            # A failing model run alone is never a VIOLATION of persim (DESIGN 2.2): it is a machinery failure
            # unless reproduced on the real code by the R/V legs.
            self.machinery_errors.append("model %s violated %s (spec-level; not reproduced on code)\n%s" % (name, r["violated"], r["out"][-2500:]))
            return False
        return True

    def liveness(self, module, constants, properties, workers=8, heap="6g"):
        """Termination (and the action properties that are its reason) under weak fairness; the same run WITHOUT fairness must be refuted
        (stuttering), which shows TLC really evaluated the temporal formula."""
        from . import tlc
        r = tlc.run_tlc(module, workers=workers, spec="FairSpec", constants=constants, properties=properties, heap=heap, timeout=7200)
        self.model("%s liveness under WF %s %s" % (module, constants, properties), r, constants=constants)
        r = tlc.run_tlc(module, workers=workers, spec="Spec", constants=constants, properties=["Termination"], heap=heap, timeout=7200)
        self.model("%s Termination without fairness (must be refuted)" % module, r, expect_violation="Termination", constants=constants)

    # ---- verdict bookkeeping
    def count(self, n=1, key=None, nontrivial=True):
        self.evaluations += n
        if key is not None and nontrivial:
            self.nontrivial.add(key if isinstance(key, (str, int, tuple)) else json.dumps(key, sort_keys=True))

    def sample(self, s, cap=6, good=True):
        """keep up to `cap` written-out cases, preferring non-trivial ones"""
        if len(self.samples) < cap:
            self.samples.append(s)
            self._sample_good = getattr(self, "_sample_good", []) + [good]
        elif good and not all(getattr(self, "_sample_good", [True])):
            i = self._sample_good.index(False)
            self.samples[i] = s
            self._sample_good[i] = True

    def ok_trace(self, n=1):
        self.traces_ok += n
        self.traces_total += n

    def divergence(self, info):
        self.traces_total += 1
        if len(self.divergences) < 20:
            self.divergences.append(info)
        self.extra["algorithm_divergences"] = self.extra.get("algorithm_divergences", 0) + 1

    def failure(self, info, case):
        """A property-layer failure on the real code.  Matched against known findings, else a VIOLATION."""
        self.traces_total += 1
        for k in self.known:
            if all(info.get(a) == b for a, b in k.get("match", {}).items()):
                h = self.known_hits.setdefault(k["id"], dict(count=0, what=k["what"], example=case))
                h["count"] += 1
                return "known"
        self.violations.append(dict(info=info, case=case))
        return "violation"

    def finish(self):
        os.makedirs(EVID, exist_ok=True)
        wall = time.time() - self.t0
        for kid, h in self.known_hits.items():
            print("KNOWN-FINDING: property=%s %s [%s; %d occurrence(s) this run]" % (self.pid, h["what"], kid, h["count"]))
        rc = 0
        if self.machinery_errors:
            for e in self.machinery_errors:
                print("MACHINERY-ERROR:", e, file=sys.stderr)
            rc = 2
        if self.violations:
            os.makedirs(REPLAYS, exist_ok=True)
            for i, v in enumerate(self.violations[:5]):
                path = os.path.join(REPLAYS, "%s_%s_%d_%d.json" % (self.pid, self.tier, self.seed, i))
                json.dump(dict(property=self.pid, **v), open(path, "w"), indent=1, default=str)
                print("VIOLATION property=%s replay=%s" % (self.pid, path))
                print("  clause: %s" % json.dumps(v["info"], default=str)[:600])
            rc = 1
        level = self.level
        if self.traces_total and self.traces_ok == 0 and self.extra.get("algorithm_divergences"):
            level = "exploration"
            self.notes.append("all traces diverged from the algorithm layer; level downgraded to exploration")
        cov = dict(
            evaluations=max(self.evaluations, 0), distinct_nontrivial=len(self.nontrivial), rule=self.rule,
            samples=self.samples[:8] or ["(no samples)"], states=self.states, transitions=self.transitions,
            traces_validated_against_impl=self.traces_ok, traces_total=self.traces_total,
            model_runs=self.model_runs, trusted_base=self.trusted,
            known_findings_hit={k: v["count"] for k, v in self.known_hits.items()},
            algorithm_divergence_examples=self.divergences[:5], notes=self.notes,
        )
        if self.exhaustive is not None:
            cov["exhaustive"] = self.exhaustive
        cov.update(self.extra)
        try:
            from . import selftest
            if selftest.RESULTS:
                cov["self_test_corrupted_traces"] = dict(selftest.RESULTS)
                for m_, r_ in selftest.RESULTS.items():
                    if r_.get("rejected") == 0:
                        self.notes.append("S leg: corrupted %s cases were NOT rejected" % m_)
        except Exception:
            pass
        if level == "model_checking" and (self.states < 1 or self.transitions < 1):
            level = "exploration"
        ev = dict(property_id=self.pid, tier=self.tier, seed=self.seed, level=level, coverage=cov,
                  assumptions=self.assumptions, wall_s=round(wall, 2), violations=len(self.violations))
        if rc != 2 and not getattr(self, 'is_replay', False) and not os.environ.get('VERIF_NO_EVIDENCE'):
            json.dump(ev, open(os.path.join(EVID, self.pid + ".json"), "w"), indent=1, default=str)
        print("%s tier=%s seed=%d: states=%d transitions=%d traces_ok=%d/%d evaluations=%d nontrivial=%d violations=%d known=%d wall=%.1fs rc=%d"
              % (self.pid, self.tier, self.seed, self.states, self.transitions, self.traces_ok, self.traces_total,
                 self.evaluations, len(self.nontrivial), len(self.violations), sum(h["count"] for h in self.known_hits.values()), wall, rc))
        return rc


# ---------------------------------------------------------------- embeddings
class Emb:
    """x = s*tick + t.  exact=True: dyadic scale/shift, the code's +,-,/2,compare are exact in binary64."""

    def __init__(self, s, t=0, exact=True, name=None):
        self.s, self.t, self.exact = Fraction(s), Fraction(t), exact
        self.name = name or ("%s*k%+g" % (s, float(t)))

    def f(self, tick):
        if tick is None:
            return None
        if tick == "inf":
            return float("inf")
        return float(self.s * Fraction(tick) + self.t)

    def ticks(self, x, q=1, rel=1e-9, shift=True):
        """Decode float x to an integer count of 1/q ticks; None if off-lattice (exact: no tolerance) or not finite."""
        if x != x or x in (float("inf"), float("-inf")):
            return None
        fx = Fraction(x)
        v = ((fx - (self.t if shift else 0)) / self.s) * q
        if self.exact:
            return int(v) if v.denominator == 1 else None
        r = round(v)
        scale = max(1, abs(r))
        return int(r) if abs(v - r) <= rel * scale * q else None


EXACT_EMBS = [Emb(1, 0, name="1*k"), Emb(Fraction(1, 4), -3, name="k/4-3"), Emb(8, 16, name="8*k+16"),
              Emb(Fraction(1, 1024), 0, name="k/1024"), Emb(Fraction(1, 2 ** 50), 0, name="k*2^-50"), Emb(2 ** 30, 0, name="k*2^30")]
# scales beyond any absolute constant a maintainer might reach for (1e10 sentinels, 1e-10 guards, float32 ranges)
EXTREME_EMBS = [Emb(2 ** 60, 0, name="k*2^60"), Emb(Fraction(1, 2 ** 100), 0, name="k*2^-100")]
DEC_EMBS = [Emb(Fraction(1, 10), 0, False, "0.1*k"), Emb(Fraction(7, 10), Fraction(-21, 10), False, "0.7*k-2.1"),
            Emb(Fraction(1, 3), 0, False, "k/3"), Emb(Fraction(1, 10 ** 6), 0, False, "1e-6*k"), Emb(10 ** 6, 0, False, "1e6*k")]


def digest(obj):
    return hashlib.sha256(json.dumps(obj, sort_keys=True, default=str).encode()).hexdigest()[:16]


def run_driver(script, payload, hashseed=0, timeout=1800, extra_env=None):
    """Run harness/drivers/<script> in /venv python with PERSIM_VERIF=1; JSON in on stdin, JSON out on stdout."""
    env = dict(os.environ)
    env.update({"PERSIM_VERIF": "1", "PYTHONHASHSEED": str(hashseed), "MPLBACKEND": "Agg", "PYTHONPATH": os.environ.get("VERIF_REPO", "/repo") + ":" + ROOT,
                "PYTHONWARNINGS": "default", "OMP_NUM_THREADS": "1", "OPENBLAS_NUM_THREADS": "1"})
    env.update(extra_env or {})
    p = subprocess.run([VENV_PY, "-W", "ignore::SyntaxWarning", os.path.join(ROOT, "harness", "drivers", script)],
                       input=json.dumps(payload), capture_output=True, text=True, env=env, timeout=timeout)
    if p.returncode != 0:
        raise RuntimeError("driver %s failed rc=%d\n%s" % (script, p.returncode, p.stderr[-3000:]))
    # the driver prints exactly one JSON document on the last line
    return json.loads(p.stdout.strip().splitlines()[-1])


def unfl(s):
    if s == "nan":
        return float("nan")
    if s == "inf":
        return float("inf")
    if s == "-inf":
        return float("-inf")
    return float.fromhex(s)


def lcm(a, b):
    from math import gcd
    return a * b // gcd(a, b)


def decode_lattice(emb, xs_shifted, ys_unshifted, qmax=64, qs_inexact=(1, 2, 3, 4, 6, 8, 12, 16, 24)):
    """Decode floats to integer counts of 1/q ticks with a common q.  xs carry the embedding's shift, ys do not.
    Returns (q, xs_int, ys_int) or None when some value is off the lattice (never rounds silently)."""
    import math
    allv = list(xs_shifted) + list(ys_unshifted)
    if any((v != v) or v in (float("inf"), float("-inf")) for v in allv):
        return None
    if emb.exact:
        fx = [(Fraction(x) - emb.t) / emb.s for x in xs_shifted]
        fy = [Fraction(y) / emb.s for y in ys_unshifted]
        q = 1
        for v in fx + fy:
            q = lcm(q, v.denominator)
            if q > qmax:
                return None
        return q, [int(v * q) for v in fx], [int(v * q) for v in fy]
    for q in qs_inexact:
        xi = [emb.ticks(x, q) for x in xs_shifted]
        yi = [emb.ticks(y, q, shift=False) for y in ys_unshifted]
        if all(v is not None for v in xi + yi):
            return q, xi, yi
    return None


def chunks(lst, n):
    k = max(1, (len(lst) + n - 1) // n)
    return [lst[i:i + k] for i in range(0, len(lst), k)]


CHUNK_WALL_S = int(os.environ.get("VERIF_CHUNK_WALL_S", "600"))
JOB_WALL_S = int(os.environ.get("VERIF_JOB_WALL_S", "60"))


def run_driver_parallel(script, jobs, nproc=8, hashseeds=(0,), timeout=3600, extra_env=None):
    """Split jobs over processes (round-robin over hash seeds); returns results aligned with jobs plus the seed used."""
    import concurrent.futures as cf
    if not jobs:
        return [], []
    parts = chunks(list(range(len(jobs))), nproc)
    def work(a):
        ci, idxs = a
        hs = hashseeds[ci % len(hashseeds)]
        try:
            r = run_driver(script, {"jobs": [jobs[i] for i in idxs]}, hashseed=hs, timeout=min(timeout, CHUNK_WALL_S), extra_env=extra_env)
            return idxs, r["results"], hs
        except subprocess.TimeoutExpired:
            # the code under test did not come back (a loop inside compiled code is out of reach of the driver's own CPU budget): every job of
            # the chunk is run again on its own under a short wall-clock limit; the ones that hang are "no result" observations, not machinery errors
            rs, hung = [], 0
            for i in idxs:
                if hung >= 3:      # three jobs of this chunk already hang: that is reported; the rest of the chunk is not waited for
                    rs.append({"noresult": True, "hung": True, "raised": "not run: earlier jobs of the same batch did not come back"})
                    continue
                try:
                    rs.append(run_driver(script, {"jobs": [jobs[i]]}, hashseed=hs, timeout=JOB_WALL_S, extra_env=extra_env)["results"][0])
                except subprocess.TimeoutExpired:
                    hung += 1
                    rs.append({"noresult": True, "hung": True, "raised": "no result within %d s" % JOB_WALL_S})
            return idxs, rs, hs
    res = [None] * len(jobs)
    seeds = [None] * len(jobs)
    with cf.ThreadPoolExecutor(max_workers=nproc) as ex:
        for idxs, rs, hs in ex.map(work, list(enumerate(parts))):
            for i, r in zip(idxs, rs):
                res[i] = r
                seeds[i] = hs
    return res, seeds
