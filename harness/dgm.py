"""Diagram generators (ticks) and the harness' own matching solvers that produce certificates for the specs."""
import numpy as np
from fractions import Fraction

INF = 10 ** 6


def gen_dgm(rng, nmax, tmax, style=None, allow_inf=True, nmin=0):
    """Random diagram in ticks: list of [b, d, fin]."""
    n = rng.randint(nmin, nmax)
    style = style or rng.choice(["ties", "ties", "spread", "diag", "dups"])
    pool = list(range(0, tmax + 1))
    if style == "ties":
        pool = sorted(rng.sample(pool, min(len(pool), rng.randint(2, 5))))
    pts = []
    while len(pts) < n:
        b, d = rng.choice(pool), rng.choice(pool)
        if b > d:
            b, d = d, b
        if b == d and style not in ("diag", "ties") and rng.random() < 0.8:
            continue
        pts.append([b, d, 1])
        if style == "dups" and rng.random() < 0.4 and len(pts) < n:
            pts.append([b, d, 1])
    if allow_inf and rng.random() < 0.12:
        pts.insert(rng.randrange(len(pts) + 1), [rng.choice(pool), 0, 0])
    return pts


def to_float_dgm(pts, emb):
    return [[emb.f(b), emb.f(d) if fin else float("inf")] for b, d, fin in pts]


def fin(pts):
    return [(b, d) for b, d, f in pts if f]


def bott_matrix(X, Y):
    """Definitional augmented matrix in half ticks (numpy int64)."""
    m, n = len(X), len(Y)
    D = np.full((m + n, m + n), INF, dtype=np.int64)
    if m and n:
        Xa, Ya = np.array(X), np.array(Y)
        D[:m, :n] = 2 * np.maximum(np.abs(Xa[:, None, 0] - Ya[None, :, 0]), np.abs(Xa[:, None, 1] - Ya[None, :, 1]))
    for i, (b, d) in enumerate(X):
        D[i, n + i] = d - b
    for j, (b, d) in enumerate(Y):
        D[m + j, j] = d - b
    D[m:, n:] = 0
    return D


def _max_matching(adj):
    from scipy.sparse import csr_matrix
    from scipy.sparse.csgraph import maximum_bipartite_matching
    g = csr_matrix(adj.astype(np.int8))
    return maximum_bipartite_matching(g, perm_type="column")  # for each row, matched column or -1


def bott_certificate(X, Y):
    """(hopt, pm (1-based perm), hallX (1-based rows)) for the bottleneck distance of finite diagrams X, Y."""
    N = len(X) + len(Y)
    if N == 0:
        return 0, [], []
    D = bott_matrix(X, Y)
    cands = np.unique(D)
    lo, hi = 0, len(cands) - 1
    best = None
    while lo <= hi:
        mid = (lo + hi) // 2
        mt = _max_matching(D <= cands[mid])
        if (mt >= 0).all():
            best = (int(cands[mid]), mt)
            hi = mid - 1
        else:
            lo = mid + 1
    hopt, mt = best
    pm = [int(c) + 1 for c in mt]
    hall = []
    if hopt > 0:
        adj = D <= hopt - 1
        mt2 = _max_matching(adj)
        col_to_row = {int(c): r for r, c in enumerate(mt2) if c >= 0}
        free = [r for r in range(N) if mt2[r] < 0]
        r0 = free[0]
        seen_r, stack, seen_c = {r0}, [r0], set()
        while stack:
            r = stack.pop()
            for c in np.nonzero(adj[r])[0]:
                c = int(c)
                if c not in seen_c:
                    seen_c.add(c)
                    r2 = col_to_row.get(c)
                    if r2 is not None and r2 not in seen_r:
                        seen_r.add(r2)
                        stack.append(r2)
        hall = sorted(r + 1 for r in seen_r)
    return hopt, pm, hall
