"""S leg: bind the trace specifications to their inputs.  For every batch validator a corrupter alters ONE recorded field of a case
TLC accepted; TLC must then reject the corrupted copy.  Results go to the evidence (self_test); a corrupted case that is still
accepted is reported as a note -- it never creates or suppresses a VIOLATION."""
import copy
from fractions import Fraction
from .fix import fix, unfix


def fadd(rec, x):
    return fix(unfix(rec) + Fraction(x))


def c_sweep(c):
    if c.get("lattice") and c["cps"] and len(c["cps"][0]) > 1:
        c["cps"][0][1][1] += 1
        return c


def c_bott(c):
    if c.get("lattice"):
        c["dist"] += 1
        return c


def c_wass(c):
    c["dist"] = fadd(c["dist"], 1)
    return c


def c_mgh(c):
    if c["kind"] == "pair" and not c["raised"] and c["halfint"]:
        c["lb2"] = c["ub2"] + 1
        return c


def c_grid(c):
    if c.get("lattice") and c["values"]:
        c["values"][0][len(c["values"][0]) // 2] += 3 * c["s"]
        return c


def c_imager(c):
    c["events"][-1]["res"][0] += 1
    return c


def c_transf(c):
    for e in c["events"]:
        if e[0] == 2 and e[2]:
            e[2][0] += 1       # a transform that altered the fitted state
            return c


def c_algebra(c):
    for e in reversed(c["events"]):
        if e["op"] in ("add", "sub", "neg", "mul", "rmul", "div") and e["news"] and not e["raised"]:
            o = e["news"][0]
            if o[1] == 1 and o[6] and len(o[6][0]) > 2:
                o[6][0][1][1] += 1
                return c
            if o[1] == 2 and o[6]:
                o[6][0][1] += 1
                return c


def c_norms(c):
    if c["kind"] == "norms" and c["norms"] and c["norms"][0][2] == 1:
        c["norms"][0][3] = fadd(c["norms"][0][3], 1)
        return c


def c_entropy(c):
    if not c["raised"] and c["vals"] and c["vals"][0][0] == 1 and c["dgms"] and len([b for b in c["dgms"][0] if b[2]]) >= 2:
        c["vals"][0][1] = fadd(c["vals"][0][1], 1)
        return c


def c_laws(c):
    if len(c["V"]) >= 2 and c["V"][0][1][0] == 1:
        c["V"][0][1][1] = fadd(c["V"][0][1][1], 1000)
        return c


def c_kernel(c):
    if c["kind"] == "grid":
        c["VP"][8][8][1] = fadd(c["VP"][8][8][1], Fraction(1, 10))
        return c


def c_image(c):
    if c["imgs"] and c["imgs"][0][4]:
        c["imgs"][0][4][0][0] = fadd(c["imgs"][0][4][0][0], 1)
        return c


def c_pure(c):
    if c["events"]:
        c["events"][0][4] = 1
        return c


def c_plot(c):
    if c["kind"] == "diagrams" and c["colls"] and c["colls"][0]:
        c["colls"][0][0][0] += 1
        return c
    if c["kind"] == "matching":
        c["onother"] = 1
        return c


def c_acc(c):
    if c.get("lattice") and c["imgs"] and c["imgs"][0]:
        c["imgs"][0][0][0] += 1
        return c


def c_lazy(c):
    if c["events"]:
        c["events"][-1][3] += 1        # the lazily built run returns something else
        return c


def c_heat(c):
    if c["h"][0] == 1:
        c["h"][1] = fadd(c["h"][1], Fraction(1, 1000))
        return c


CORRUPT = {"TraceAccumulate": c_acc, "TraceLazy": c_lazy, "TraceHeat": c_heat, "TraceSweep": c_sweep, "TraceBottleneck": c_bott, "TraceWasserstein": c_wass, "TraceMGH": c_mgh, "TraceGrid": c_grid, "TraceImager": c_imager,
           "TraceTransformers": c_transf, "TraceAlgebra": c_algebra, "TraceNorms": c_norms, "TraceEntropy": c_entropy, "MetricLaws": c_laws,
           "TraceKernel": c_kernel, "TraceImage": c_image, "TracePure": c_pure, "PlotScene": c_plot}
RESULTS = {}


def after_batch(module, cases, verdicts, runner):
    """called by tlc.run_batch with the accepted cases; corrupts up to 2 of them once per module per run"""
    if module not in CORRUPT or module in RESULTS:
        return
    picked = []
    for c, v in zip(cases, verdicts):
        if v[2] == "ok":
            cc = CORRUPT[module](copy.deepcopy(c))
            if cc is not None:
                picked.append(cc)
            if len(picked) == 2:
                break
    if not picked:
        return
    RESULTS[module] = {"corrupted": len(picked), "rejected": None}
    vs = runner(picked)
    RESULTS[module] = {"corrupted": len(picked), "rejected": sum(1 for v in vs if v[2] != "ok")}
