#!/bin/sh
# setup_cmd: nothing to build (TLA+ specs are interpreted by TLC; the Python harness is stdlib + /venv).
# Parse every specification module once so that a broken spec fails here, not inside a check.
cd "$(dirname "$0")/spec" || exit 2
rc=0
jt=$(mktemp -d)
for f in *.tla; do
  out=$(java -Djava.io.tmpdir="$jt" -cp /opt/veriftools/tla/tla2tools.jar:/opt/veriftools/tla/CommunityModules-deps.jar tla2sany.SANY "$f" 2>&1)
  if echo "$out" | grep -q -i "error"; then echo "SANY failed on $f"; echo "$out" | tail -20; rc=2; fi
done
rm -rf "$jt"
# every harness module must at least compile
/venv/bin/python -m py_compile ../check ../harness/*.py ../harness/props/*.py ../harness/drivers/*.py || rc=2
# the generated constant tables must be what the generator produces
tmp=$(mktemp); python3 ../harness/gen_tables.py "$tmp" && cmp -s "$tmp" Tables.tla || { echo "spec/Tables.tla differs from harness/gen_tables.py output"; rc=2; }; rm -f "$tmp"
exit $rc
